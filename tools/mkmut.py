#!/venv/bin/python
"""tools/mkmut.py <name> <file-relative-to-repo> <old> <new> [count]: write mutants/<name>.diff"""
import difflib
import os
import sys

name, rel, old, new = sys.argv[1:5]
count = int(sys.argv[5]) if len(sys.argv) > 5 else 1
src = open(os.path.join("/repo", rel)).read()
old = old.encode().decode("unicode_escape")
new = new.encode().decode("unicode_escape")
if src.count(old) < 1:
    sys.exit("old text not found")
if src.count(old) != count and count == 1:
    sys.exit(f"old text occurs {src.count(old)} times")
dst = src.replace(old, new, count)
diff = difflib.unified_diff(src.splitlines(True), dst.splitlines(True), "a/" + rel, "b/" + rel)
here = os.path.dirname(os.path.dirname(os.path.abspath(__file__)))
open(os.path.join(here, "mutants", name + ".diff"), "w").writelines(diff)
print("wrote", name)
