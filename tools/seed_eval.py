#!/venv/bin/python
"""Confirm a seeded property-breaking change and run checks against it.

  tools/seed_eval.py --src /tmp/wt_C05/SEEDED --name C05_a --checks C05 [--tier quick] [--save]

Verifies in a scratch copy of /repo (outside /repo and /verif): demo passes
without the patch, patch applies, pinned test-suite still passes with it, demo
fails with it.  Then runs the checks with VERIF_REPO pointing at the patched
copy.  With --save the seed is stored under /verif/seeded/<name>/.
"""
import argparse
import json
import os
import re
import shutil
import subprocess
import sys
import tempfile

HERE = os.path.dirname(os.path.dirname(os.path.abspath(__file__)))


def sh(cmd, **kw):
    return subprocess.run(cmd, capture_output=True, text=True, **kw)


def main():
    ap = argparse.ArgumentParser()
    ap.add_argument("--src", required=True)
    ap.add_argument("--name", required=True)
    ap.add_argument("--checks", nargs="*", default=[])
    ap.add_argument("--tier", default="quick")
    ap.add_argument("--save", action="store_true")
    args = ap.parse_args()
    patch = os.path.join(args.src, "patch.diff")
    demo = os.path.join(args.src, "demo.py")
    meta_p = os.path.join(args.src, "meta.json")
    meta = json.load(open(meta_p)) if os.path.exists(meta_p) else {}
    tmp = tempfile.mkdtemp(prefix="cobyqa_seed_", dir="/tmp")
    rep = {"name": args.name}
    try:
        for name in ("cobyqa", "pyproject.toml"):
            src = os.path.join("/repo", name)
            dst = os.path.join(tmp, name)
            if os.path.isdir(src):
                shutil.copytree(src, dst, ignore=shutil.ignore_patterns("__pycache__"))
            else:
                shutil.copy(src, dst)
        env = dict(os.environ, PYTHONPATH=tmp, PYTHONDONTWRITEBYTECODE="1")
        env.pop("COBYQA_VERIF", None)
        r = sh(["/venv/bin/python", "-B", demo], env=env, cwd=tmp, timeout=1800)
        rep["demo_without_patch_rc"] = r.returncode
        r = sh(["patch", "-p1", "-s", "-d", tmp, "-i", os.path.abspath(patch)])
        rep["patch_applies"] = r.returncode == 0
        if r.returncode != 0:
            rep["patch_err"] = (r.stdout + r.stderr)[-400:]
            print(json.dumps(rep, indent=1))
            return 1
        r = sh(["/venv/bin/python", "-B", "-m", "pytest", "-q", "-p", "no:cacheprovider", "--timeout=900",
                "cobyqa"], cwd=tmp, env=env)
        rep["tests"] = r.stdout.strip().splitlines()[-1] if r.stdout.strip() else r.stderr[-200:]
        rep["tests_pass"] = (" failed" not in rep["tests"]) and (" error" not in rep["tests"]) and "passed" in rep["tests"]
        r = sh(["/venv/bin/python", "-B", demo], env=env, cwd=tmp, timeout=1800)
        rep["demo_with_patch_rc"] = r.returncode
        rep["demo_tail"] = (r.stdout + r.stderr).strip()[-300:]
        rep["confirmed"] = (rep["demo_without_patch_rc"] == 0 and rep["demo_with_patch_rc"] != 0
                            and rep["tests_pass"])
        outdir = os.path.join(tmp, "_out")
        os.makedirs(outdir)
        rep["checks"] = {}
        for cid in args.checks:
            env2 = dict(os.environ, VERIF_REPO=tmp, VERIF_OUT=outdir)
            r = sh([os.path.join(HERE, "check"), cid, "--tier", args.tier], env=env2)
            keys = re.findall(r"key=(\S+)", r.stdout)
            rep["checks"][cid] = {"rc": r.returncode, "violation": "VIOLATION" in r.stdout, "keys": keys[:6]}
            if r.returncode == 2:
                rep["checks"][cid]["stderr"] = r.stderr[-400:]
        print(json.dumps(rep, indent=1))
        if args.save and rep["confirmed"]:
            dst = os.path.join(HERE, "seeded", args.name)
            os.makedirs(dst, exist_ok=True)
            shutil.copy(patch, os.path.join(dst, "patch.diff"))
            shutil.copy(demo, os.path.join(dst, "demo.py"))
            meta.update({
                "property": meta.get("property", args.name.split("_")[0]),
                "confirmed_by": "tools/seed_eval.py: demo rc 0 without patch, tests pass with patch (%s), "
                                "demo rc %d with patch" % (rep["tests"], rep["demo_with_patch_rc"]),
                "detected_by": {c: v["keys"] for c, v in rep["checks"].items() if v["violation"]},
                "missed_by": [c for c, v in rep["checks"].items() if not v["violation"]],
                "tier": args.tier,
            })
            json.dump(meta, open(os.path.join(dst, "meta.json"), "w"), indent=1)
    finally:
        shutil.rmtree(tmp, ignore_errors=True)
    return 0


if __name__ == "__main__":
    sys.exit(main())
