#!/venv/bin/python
"""setup_cmd: nothing is compiled; byte-check the harness and prove that it
is bound to the working tree and that the environment it needs is present."""
import os
import sys

HERE = os.path.dirname(os.path.dirname(os.path.abspath(__file__)))
sys.path.insert(0, HERE)
os.environ.setdefault("VERIF_REPO", "/repo")
n = 0
for root, _, files in os.walk(os.path.join(HERE, "mc")):
    for f in files:
        if f.endswith(".py"):
            compile(open(os.path.join(root, f)).read(), os.path.join(root, f), 'exec')
            n += 1
from mc import common  # noqa: E402

cobyqa = common.bind_repo()
import numpy, scipy  # noqa: E402,E401

# the cross-feature covering arrays: load the cached arrays (rebuilt here if the factor list has changed, so that
# no check has to do it) and verify the 3-way guarantee from scratch
from mc import cover  # noqa: E402
import itertools  # noqa: E402

r3, r4 = cover.rows(3), cover.rows(4)
left = cover._tuples(3)
for row in r3:
    for combo in itertools.combinations(range(len(cover.FACTORS)), 3):
        left.discard((combo, tuple(row[k] for k in combo)))
assert not left, "3-way covering array incomplete"
assert all(len(r) == len(cover.FACTORS) for r in r4)
print(f"covering arrays: {len(r3)} (3-way, verified) + {len(r4)} (4-way) cases over {len(cover.FACTORS)} factors")
print(f"selftest ok: {n} harness files, cobyqa {cobyqa.__version__} from {cobyqa.__file__}, "
      f"numpy {numpy.__version__}, scipy {scipy.__version__}")
