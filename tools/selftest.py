#!/venv/bin/python
"""setup_cmd: nothing is compiled; byte-check the harness and prove that it
is bound to the working tree and that the environment it needs is present."""
import os
import sys

HERE = os.path.dirname(os.path.dirname(os.path.abspath(__file__)))
sys.path.insert(0, HERE)
os.environ.setdefault("VERIF_REPO", "/repo")
n = 0
for root, _, files in os.walk(os.path.join(HERE, "mc")):
    for f in files:
        if f.endswith(".py"):
            compile(open(os.path.join(root, f)).read(), os.path.join(root, f), 'exec')
            n += 1
from mc import common  # noqa: E402

cobyqa = common.bind_repo()
import numpy, scipy  # noqa: E402,E401

print(f"selftest ok: {n} harness files, cobyqa {cobyqa.__version__} from {cobyqa.__file__}, "
      f"numpy {numpy.__version__}, scipy {scipy.__version__}")
