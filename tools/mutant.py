#!/venv/bin/python
"""Detection demonstration driver.

  tools/mutant.py --patch P.diff [--reverse] --checks C05 C06 [--tier quick] [--no-tests]

Copies /repo's working tree to a scratch directory outside /repo and /verif,
applies the patch (or reverses it), runs the pinned test-suite there (the
mutant must still pass it), runs the requested checks with VERIF_REPO pointing
at the copy and reports which of them print VIOLATION.  The copy is deleted.
"""
import argparse
import json
import os
import re
import shutil
import subprocess
import sys
import tempfile

HERE = os.path.dirname(os.path.dirname(os.path.abspath(__file__)))


def main():
    ap = argparse.ArgumentParser()
    ap.add_argument("--patch", required=True)
    ap.add_argument("--reverse", action="store_true")
    ap.add_argument("--checks", nargs="+", required=True)
    ap.add_argument("--tier", default="quick")
    ap.add_argument("--no-tests", action="store_true")
    ap.add_argument("--keep", action="store_true")
    args = ap.parse_args()
    tmp = tempfile.mkdtemp(prefix="cobyqa_mut_", dir="/tmp")
    out = {"patch": args.patch, "checks": {}}
    try:
        for name in ("cobyqa", "pyproject.toml"):
            src = os.path.join("/repo", name)
            dst = os.path.join(tmp, name)
            if os.path.isdir(src):
                shutil.copytree(src, dst, ignore=shutil.ignore_patterns("__pycache__"))
            else:
                shutil.copy(src, dst)
        cmd = ["patch", "-p1", "-s", "-d", tmp, "-i", os.path.abspath(args.patch)]
        if args.reverse:
            cmd.insert(1, "-R")
        r = subprocess.run(cmd, capture_output=True, text=True)
        if r.returncode != 0:
            print("PATCH FAILED", r.stdout, r.stderr)
            return 2
        env = dict(os.environ, PYTHONPATH=tmp, PYTHONDONTWRITEBYTECODE="1")
        env.pop("COBYQA_VERIF", None)
        if not args.no_tests:
            r = subprocess.run(["/venv/bin/python", "-B", "-m", "pytest", "-q", "-p", "no:cacheprovider",
                                "--timeout=900", "cobyqa"], cwd=tmp, env=env, capture_output=True, text=True)
            tail = r.stdout.strip().splitlines()[-1] if r.stdout.strip() else r.stderr[-300:]
            out["tests"] = tail
            m = re.search(r"(\d+) failed", tail)
            out["tests_failed"] = int(m.group(1)) if m else 0
            failed = re.findall(r"FAILED (\S+)", r.stdout)
            out["failed_tests"] = failed
        outdir = os.path.join(tmp, "_out")
        os.makedirs(outdir)
        for cid in args.checks:
            env2 = dict(os.environ, VERIF_REPO=tmp, VERIF_OUT=outdir, VERIF_TIER=args.tier)
            r = subprocess.run([os.path.join(HERE, "check"), cid, "--tier", args.tier], env=env2,
                               capture_output=True, text=True)
            keys = re.findall(r"key=(\S+)", r.stdout)
            out["checks"][cid] = {"rc": r.returncode, "violation": "VIOLATION" in r.stdout, "keys": keys[:8]}
            if r.returncode == 2:
                out["checks"][cid]["stderr"] = r.stderr[-500:]
        print(json.dumps(out, indent=1))
    finally:
        if not args.keep:
            shutil.rmtree(tmp, ignore_errors=True)
        else:
            print("kept", tmp)
    return 0


if __name__ == "__main__":
    sys.exit(main())
