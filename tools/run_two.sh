#!/bin/bash
# thorough tier of the checks named on the command line, one after the other
cd "$(dirname "$0")/.."
for c in "$@"; do
  s=$(date +%s); ./check $c --tier thorough > /tmp/thorough_$c.log 2>&1; rc=$?; e=$(date +%s)
  echo "$c rc=$rc $((e-s))s viol=$(grep -c VIOLATION /tmp/thorough_$c.log) $(grep -E '^\[C..\] tier' /tmp/thorough_$c.log)"
  grep -E "VIOLATION|HARNESS|KNOWN|key=" /tmp/thorough_$c.log | cut -c1-300 | head -6
done
