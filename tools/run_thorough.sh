#!/bin/bash
# runs every check in the thorough tier, one after the other, and prints a one-line summary each
cd "$(dirname "$0")/.."
for c in C19 C14 C07 C18 C12 C13 C02 C03 C08 C01 C11; do
  s=$(date +%s); ./check $c --tier thorough > /tmp/thorough_$c.log 2>&1; rc=$?; e=$(date +%s)
  echo "$c rc=$rc $((e-s))s viol=$(grep -c VIOLATION /tmp/thorough_$c.log) $(grep -E '^\[C..\] tier' /tmp/thorough_$c.log)"
  grep -E "VIOLATION|HARNESS|key=" /tmp/thorough_$c.log | head -5
done
