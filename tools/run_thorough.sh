#!/bin/bash
# runs every check in the thorough tier, one after the other, and prints a one-line summary each
cd "$(dirname "$0")/.."
for c in C19 C17 C10 C04 C08 C01 C12 C13 C02 C07 C14 C11 C18 C05 C20 C09 C03 C06 C15 C16; do
  s=$(date +%s); ./check $c --tier thorough > /tmp/thorough_$c.log 2>&1; rc=$?; e=$(date +%s)
  echo "$c rc=$rc $((e-s))s viol=$(grep -c VIOLATION /tmp/thorough_$c.log) $(grep -E '^\[C..\] tier' /tmp/thorough_$c.log)"
  grep -E "VIOLATION|HARNESS|key=" /tmp/thorough_$c.log | head -5
done
