#!/venv/bin/python
"""Regenerates MANIFEST.json from the table below (single source of truth)."""
import json
import os

HERE = os.path.dirname(os.path.dirname(os.path.abspath(__file__)))

ENGINES = [
    {"name": "E1-envx", "path": "mc/e1.py", "kind_free_text":
     "stateless deviation-bounded exploration of the real minimize() under a harness-owned environment "
     "(user functions/callback answers are choice points); bounded-exhaustive over the problem alphabet"},
    {"name": "E2-opseq", "path": "mc/e2.py", "kind_free_text":
     "explicit-state breadth-first search over operation sequences on real component objects "
     "(Problem filter, Models, TrustRegion radius rules) in lock-step with Python reference models"},
    {"name": "E3-ctrl", "path": "mc/e3.py", "kind_free_text":
     "the real minimize() main loop and radius rules explored against a scripted TrustRegion back end; "
     "conformance replay of recorded real traces"},
    {"name": "E4-sched", "path": "mc/e4.py", "kind_free_text":
     "preemption-bounded (CHESS-style) interleaving of real threads calling minimize(), sys.settrace baton scheduler"},
    {"name": "E5-lattice", "path": "mc/e5.py", "kind_free_text":
     "bounded-exhaustive input-lattice enumeration for pure functions (subsolvers, translators, option completion)"},
]

# id -> (engine, level, technique, text, note, design_ref)
CHECKS = {}

NOT_YET = "check not built yet in this session (work in progress; see DESIGN.md section 5)"

ALL = [f"C{i:02d}" for i in range(1, 21)]


def add(pid, engine, level, technique, text, note, ref):
    CHECKS[pid] = dict(engine=engine, level=level, technique=technique, text=text, note=note, ref=ref)


add("C06", "E1-envx", "exploration",
    "bounded-exhaustive enumeration of executions of the real minimize() over a problem alphabet "
    "(+ deviation-bounded NaN/inf environment answers in thorough), oracle on the complete user-call log",
    "Every user-function call of every explored execution is attributed to a counted evaluation; any hidden, "
    "duplicated, misplaced or internal-variable call is reported with its call site. Exhaustive over the stated "
    "alphabet, silent about other numeric data.",
    "harness closures are the only user functions; Problem.__call__ delimits an evaluation; numpy/scipy trusted",
    "DESIGN.md 5/C06")


def main():
    man = {
        "version": 1,
        "setup_cmd": "/venv/bin/python -B tools/selftest.py",
        "hooks": {
            "guard": "COBYQA_VERIF",
            "enable": "no source hooks: checks import cobyqa from /repo's working tree (VERIF_REPO) and wrap "
                      "module-level names inside the check process only; ./check exports COBYQA_VERIF=1",
            "baseline_off_cmd": "cd /repo && env -u COBYQA_VERIF /venv/bin/python -m pytest -ra -q "
                                "-p no:cacheprovider --timeout=900 --continue-on-collection-errors",
            "source_commits": [],
            "add_only": True,
        },
        "engines": [],
        "checks": [],
        "notes": "One entry point: ./check <ID> --tier quick|thorough, ./check <ID> --replay <file>. "
                 "Exit 0 = held on everything explored (KNOWN-FINDING lines allowed), 1 = VIOLATION, 2 = harness error.",
        "not_applicable": [],
    }
    for e in ENGINES:
        serves = sorted(p for p, c in CHECKS.items() if c["engine"].startswith(e["name"].split("-")[0])
                        or e["name"] in c["engine"])
        if os.path.exists(os.path.join(HERE, e["path"])):
            man["engines"].append(dict(e, serves_properties=serves))
    for pid in ALL:
        if pid in CHECKS:
            c = CHECKS[pid]
            man["checks"].append({
                "property_id": pid,
                "quick_cmd": f"./check {pid} --tier quick",
                "thorough_cmd": f"./check {pid} --tier thorough",
                "evidence_file": f"/verif/evidence/{pid}.json",
                "replay_cmd_template": f"./check {pid} --replay {{path}}",
                "engine": c["engine"],
                "level_claimed": {"category": c["level"], "text": c["text"], "design_ref": c["ref"]},
                "level_note": c["note"],
                "technique": c["technique"],
            })
        else:
            man["not_applicable"].append({"property_id": pid, "reason": NOT_YET})
    with open(os.path.join(HERE, "MANIFEST.json"), "w") as fh:
        json.dump(man, fh, indent=1)
        fh.write("\n")


if __name__ == "__main__":
    main()
