#!/venv/bin/python
"""Regenerates MANIFEST.json from the table below (single source of truth)."""
import json
import os

HERE = os.path.dirname(os.path.dirname(os.path.abspath(__file__)))

ENGINES = [
    {"name": "E1-envx", "path": "mc/e1.py", "kind_free_text":
     "stateless deviation-bounded exploration of the real minimize() under a harness-owned environment "
     "(user functions/callback answers are choice points); bounded-exhaustive over the problem alphabet"},
    {"name": "E2-opseq", "path": "mc/e2.py", "kind_free_text":
     "explicit-state breadth-first search over operation sequences on real component objects "
     "(Problem filter, Models, TrustRegion radius rules) in lock-step with Python reference models"},
    {"name": "E3-ctrl", "path": "mc/e3.py", "kind_free_text":
     "the real minimize() main loop and radius rules explored against a scripted TrustRegion back end; "
     "conformance replay of recorded real traces"},
    {"name": "E4-sched", "path": "mc/e4.py", "kind_free_text":
     "preemption-bounded (CHESS-style) interleaving of real threads calling minimize(), sys.settrace baton scheduler"},
    {"name": "E5-lattice", "path": "mc/e5sub.py", "kind_free_text":
     "bounded-exhaustive input-lattice enumeration for pure functions (subsolvers, translators, option completion)"},
]

# id -> (engine, level, technique, text, note, design_ref)
CHECKS = {}

NOT_YET = "check not built yet in this session (work in progress; see DESIGN.md section 5)"

ALL = [f"C{i:02d}" for i in range(1, 21)]


def add(pid, engine, level, technique, text, note, ref):
    CHECKS[pid] = dict(engine=engine, level=level, technique=technique, text=text, note=note, ref=ref)


add("C06", "E1-envx", "exploration",
    "bounded-exhaustive enumeration of executions of the real minimize() over a problem alphabet "
    "(+ deviation-bounded NaN/inf environment answers in thorough), oracle on the complete user-call log",
    "Every user-function call of every explored execution is attributed to a counted evaluation; any hidden, "
    "duplicated, misplaced or internal-variable call is reported with its call site. Exhaustive over the stated "
    "alphabet, silent about other numeric data.",
    "harness closures are the only user functions; Problem.__call__ delimits an evaluation; numpy/scipy trusted",
    "DESIGN.md 5/C06")


E1NOTE = ("harness closures are the only user functions; transparent in-process wrappers on Problem.__call__, "
          "TrustRegion and _build_result (no source change); numpy/scipy trusted; numeric alphabet of mc/alpha.py")

add("C01", "E1-envx", "exploration",
    "bounded-exhaustive enumeration of executions of the real minimize() over all bound-pattern assignments x x0 "
    "positions x objectives x constraints x scale x nb_points, plus deviation-bounded (d<=1) NaN/inf answers; "
    "oracle on every point seen in user space (exact) and on every solver trial point before projection",
    "Decides exactly-in-bounds in user space and 'by construction' (trial points and interpolation points inside the "
    "solver's box up to rounding, evaluated where the solver believes) on every execution of the enumerated space.",
    E1NOTE, "DESIGN.md 5/C01")
add("C02", "E1-envx", "exploration",
    "bounded-exhaustive enumeration of executions over the cross product demanded by the quantifier (scale x fixed "
    "variables x constraint kinds x limit kinds x bounds form x constraint form x forced termination), "
    "OptimizeResult compared with the harness log",
    "res.x bit-equal to an evaluated point, res.fun bit-equal to the value logged there, res.maxcv equal to the "
    "user-space violation recomputed from the logged constraint values, for every enumerated statement of a problem "
    "and every termination status.",
    E1NOTE, "DESIGN.md 5/C02")
add("C03", "E2-opseq + E1-envx", "model_checking",
    "explicit-state breadth-first search to a fixed point over evaluation histories fed to the real Problem filter "
    "(42 operations, filter sizes unbounded/1/2/3), lock-step reference model, conformance replay of states on fresh "
    "objects; plus deviation-bounded exploration of real runs end to end",
    "All reachable filter states for the value alphabet are visited and best_eval is compared with the reference of "
    "C03 after every transition for three penalties; end-to-end runs with NaN/inf at every evaluation index are "
    "compared with the same reference over the harness log.",
    "filter state = three lists of the Problem (validated by replaying sampled states from scratch); reference "
    "conventions documented in DESIGN.md 5/C03", "DESIGN.md 5/C03")
add("C05", "E1-envx", "exploration",
    "bounded-exhaustive enumeration of executions over every maxfev from 1 to nb_points+4 x maxiter x nb_points x "
    "history sizes relative to nfev, evaluations counted three independent ways",
    "Budgets and counters are compared on every enumerated execution, including pure feasibility problems and every "
    "budget value around the number of interpolation points.",
    E1NOTE, "DESIGN.md 5/C05")
add("C07", "E1-envx", "exploration",
    "bounded-exhaustive enumeration of executions ending in every documented way (every sampling index x every kind "
    "of early ending, every main-loop ending), predicate table derived from the docstring",
    "Each reported status is checked against the documented situation using harness-side ground truth (logs, "
    "options, resolution at exit); only the stated direction ('only when') is demanded.",
    E1NOTE + "; the status table is parsed from minimize.__doc__", "DESIGN.md 5/C07")
add("C08", "E1-envx", "fault_enumeration",
    "fault enumeration: every NaN/+-inf/huge answer at every evaluation index of every root problem (deviation bound "
    "1, bound 2 on a slice; also with debug=True), region faults, degenerate data, radius underflow, special boxes x "
    "constraints x callbacks, malformed calls, and the 3-/4-way covering arrays over 24 call features (mc/cover.py)",
    "Every enumerated faulty execution must return a well-formed OptimizeResult (or raise exactly ValueError/TypeError "
    "for malformed arguments), hand only finite barrier-clipped values to the models and never label a NaN result "
    "successful; hangs are caught by a per-run watchdog.",
    E1NOTE, "DESIGN.md 5/C08")
add("C09", "E1-envx", "fault_enumeration",
    "enumeration of every (evaluation index, stopping request) injection on recorded truthful runs; oracle on the "
    "call log after the trigger and on status/nfev/returned point",
    "For each base run every evaluation index receives each stopping request (target, feasibility, callback, pairs); "
    "the run must end there. The matrix request x step kind is required to be fully covered.",
    E1NOTE, "DESIGN.md 5/C09")
add("C20", "E1-envx", "exploration",
    "bounded-exhaustive enumeration over problems x 11 callback kinds x behaviours, with a differential oracle: the "
    "run stopped at call k must return what the passive run's callback received at call k, for every k",
    "Callback convention, count, position, point and value are checked on every execution; stop-at-k is enumerated "
    "for every k of every base run; an overwriting callback must not change the run.",
    E1NOTE, "DESIGN.md 5/C20")


E5NOTE = "real functions called directly with harness-built inputs; numpy/scipy trusted; lattice values fixed in the harness"
add("C04", "E5-lattice", "exploration",
    "bounded-exhaustive enumeration of the instance lattice of five reference families through the real minimize(), "
    "exact minimisers by rational active-set enumeration",
    "Every lattice instance must end with status 0, success, feasibility and a point within 1e-3 relative of the "
    "exact minimiser. This is exhaustive testing on a lattice, not a convergence proof.",
    "exact reference mc/refqp.py (fractions.Fraction); default options", "DESIGN.md 5/C04")
add("C15", "E5-lattice", "exploration",
    "bounded-exhaustive enumeration of a Cartesian input lattice (bound patterns x gradients x Hessians x scalings "
    "over twelve decades x constraint rows x improve_tcg; dyadic lattice, non-dyadic copy, near-normal gradients, rows "
    "x 2^40, the solvers' own debug postconditions) for the five subproblem solvers",
    "Bounds exactly, radius up to 1e-8 relative, linear (in)equalities up to 1e-8 relative, finiteness and absence of "
    "exceptions are checked on every lattice point, including every listed degeneracy.",
    E5NOTE, "DESIGN.md 5/C15")
add("C16", "E5-lattice", "exploration",
    "same lattice as C15; the harness re-evaluates each subproblem objective at 0 and at the returned step and "
    "computes the projected-gradient Cauchy decrease independently",
    "No-worse-than-zero for all five solvers, Cauchy decrease for the bound-constrained tangential solver, strict "
    "increase for the Cauchy geometry step, on every lattice point.",
    E5NOTE + "; one known finding (absolute non-descent threshold)", "DESIGN.md 5/C16")
add("C17", "E5-lattice", "exploration",
    "complete enumeration of limit patterns per component (9, +2 wrong-side for linear) for 1..3 components, all value "
    "vectors over {below, at lb, inside, at ub, above}, and all ordered sequences of up to 2+2 objects through minimize",
    "Row counts and internal violations are compared with directly computed interval excesses for every pattern and "
    "value vector; the space of patterns is finite and essentially complete.",
    E5NOTE, "DESIGN.md 5/C17")
add("C19", "E5-lattice", "exploration",
    "complete enumeration of singles and pairs (triples in thorough) of the 33 settings over their boundary lattices "
    "against a reference table of domains/couplings; invalid values x early exits through minimize",
    "Reference-invalid configurations must raise ValueError (from the helpers and from minimize whatever early exit "
    "applies), reference-valid ones must complete to the documented defaults and satisfy every relation.",
    "reference table in mc/props/c19.py, defaults parsed from the docstring", "DESIGN.md 5/C19")


add("C10", "E1-envx", "exploration",
    "metamorphic/differential enumeration of pairs of executions (restatements of the same problem) over the "
    "alphabet and over every cross-feature case of the covering arrays to which a restatement applies, bit-level "
    "comparison of evaluation sequences and results; internal linear residuals checked at every evaluated point",
    "For every enumerated pair the two runs must evaluate the same points in the same order and return the same "
    "result; no hand-written expected values are involved.",
    E1NOTE + "; the counterpart statements are built by the harness (mc/props/c10.py)", "DESIGN.md 5/C10")
add("C11", "E4-sched + E1-envx", "model_checking",
    "stateless model checking of the real code: all interleavings of 2 (3) real threads calling minimize() with at "
    "most 1 (2) preemptions under a cooperative scheduler (scheduling points: user functions, AST-flagged shared-state "
    "writers, functions receiving shared objects), plus exhaustive sequential explorations (repetition, argument and "
    "module-state fingerprints, nesting at every evaluation index)",
    "Every explored schedule must leave each thread's evaluation log and result bit-identical to the same call made "
    "alone, without exception or deadlock; sequentially, any write to an argument or to module state is caught "
    "deterministically at the first user call after it.",
    "C extensions are atomic under the baton; 2-3 threads stand for 2..16 (small-scope argument); harness-owned pure "
    "user functions", "DESIGN.md 5/C11")
E2NOTE = ("states de-duplicated on the exact rational reference state; real object advanced by its real methods; "
          "histories replayed on fresh objects for conformance; exact arithmetic in fractions.Fraction written in the harness")
add("C12", "E2-opseq + E1-envx", "model_checking",
    "explicit-state breadth-first search over update/shift/reset operation sequences on a real Models object "
    "(every index x every lattice point), enabled by exact poisedness, with a lock-step exact reference; monitors on "
    "real runs (alphabet and covering arrays)",
    "After every transition the three models must reproduce the recorded values (tolerance eps*kappa), the constraint "
    "model fed the objective's data must be bit-identical to the objective model, and the stored points/values must "
    "be the supplied ones; in real runs the same after every wrapped call.",
    E2NOTE, "DESIGN.md 5/C12")
add("C13", "E2-opseq + E1-envx", "model_checking",
    "same breadth-first search as C12; every new state's models are compared with the exact rational "
    "least-Frobenius-norm / symmetric-Broyden recursion at probe points, with each other's views and across shifts; "
    "in real runs (covering arrays) every model operation is compared with one exact step from the stored state",
    "Value, gradient and Hessian of each model must agree with the exact recursion within a rounding budget "
    "accumulated along the history; hess/hess_prod/curv/grad must describe one quadratic; a shift must not change it.",
    E2NOTE, "DESIGN.md 5/C13")
add("C14", "E2-opseq + E1-envx", "model_checking",
    "same state space; for every reached poised state, every candidate within a few radii and every index, "
    "Models.determinants (both call forms) against the exact determinant ratio; in real runs (covering arrays) every "
    "call the solver itself makes, against the exact ratio of the run's own interpolation set",
    "Each ratio must equal the exact det(W_new)/det(W_old) within eps*kappa times the exact term magnitudes; the "
    "reference itself is cross-checked against directly computed exact determinants.",
    E2NOTE, "DESIGN.md 5/C14")
add("C18", "E2-opseq + E1-envx", "model_checking",
    "explicit-state breadth-first search of the radius-management automaton on the real TrustRegion methods for "
    "every constants/radii configuration on the boundary lattice, direct count of reductions, and monitors at every "
    "iteration of real runs",
    "radius_final <= resolution <= radius, monotone resolution and the logarithmic bound are checked in every "
    "automaton state; penalty, centre (least merit) and never-replaced centre at every iteration of real runs.",
    "bare TrustRegion objects carry (radius, resolution, constants) - the only state the rules read; merits read "
    "through the real object", "DESIGN.md 5/C18")


def main():
    man = {
        "version": 1,
        "setup_cmd": "/venv/bin/python -B tools/selftest.py",
        "hooks": {
            "guard": "COBYQA_VERIF",
            "enable": "no source hooks: checks import cobyqa from /repo's working tree (VERIF_REPO) and wrap "
                      "module-level names inside the check process only; ./check exports COBYQA_VERIF=1",
            "baseline_off_cmd": "cd /repo && env -u COBYQA_VERIF /venv/bin/python -m pytest -ra -q "
                                "-p no:cacheprovider --timeout=900 --continue-on-collection-errors",
            "source_commits": [],
            "add_only": True,
        },
        "engines": [],
        "checks": [],
        "notes": "One entry point: ./check <ID> --tier quick|thorough, ./check <ID> --replay <file>. "
                 "Exit 0 = held on everything explored (KNOWN-FINDING lines allowed), 1 = VIOLATION, 2 = harness error.",
        "not_applicable": [],
    }
    for e in ENGINES:
        serves = sorted(p for p, c in CHECKS.items() if e["name"] in c["engine"])
        if os.path.exists(os.path.join(HERE, e["path"])):
            man["engines"].append(dict(e, serves_properties=serves))
    for pid in ALL:
        if pid in CHECKS:
            c = CHECKS[pid]
            man["checks"].append({
                "property_id": pid,
                "quick_cmd": f"./check {pid} --tier quick",
                "thorough_cmd": f"./check {pid} --tier thorough",
                "evidence_file": f"/verif/evidence/{pid}.json",
                "replay_cmd_template": f"./check {pid} --replay {{path}}",
                "engine": c["engine"],
                "level_claimed": {"category": c["level"], "text": c["text"], "design_ref": c["ref"]},
                "level_note": c["note"],
                "technique": c["technique"],
            })
        else:
            man["not_applicable"].append({"property_id": pid, "reason": NOT_YET})
    with open(os.path.join(HERE, "MANIFEST.json"), "w") as fh:
        json.dump(man, fh, indent=1)
        fh.write("\n")


if __name__ == "__main__":
    main()
