"""Engine E2 client for the interpolation models (C12, C13, C14).

Real side: a real ``cobyqa.models.Models`` (one objective model, one
inequality model fed the *same* data as the objective, one equality model),
built through the real ``Problem`` and advanced by the real
``update_interpolation`` / ``shift_x_base`` / ``reset_models``.

Reference side (``ref_lfn``): the same recursion - minimum-Frobenius-norm
interpolant, then per update the minimum-Frobenius-norm quadratic that
interpolates the residuals on the new set (symmetric Broyden) - carried out
in exact rational arithmetic with Gaussian elimination written here.
"""
import itertools
import pickle
import sys
from fractions import Fraction as Fr

import numpy as np
from scipy.optimize import NonlinearConstraint

from . import common, refqp

cobyqa = common.bind_repo()
import cobyqa.models as cmodels  # noqa: E402
import cobyqa.problem as cproblem  # noqa: E402

EPS = float(np.finfo(float).eps)
T10 = 2.0 ** -10
T20 = 2.0 ** -20
T40 = 2.0 ** -40


# ------------------------------------------------------------------ user functions
def f_obj(x):
    x = np.asarray(x, float)
    s = float(np.sum((x - 0.25) ** 3 + (x - 0.25) ** 2))
    if x.size > 1:
        s += float(x[0] * x[1])
    return s


def f_eq(x):
    x = np.asarray(x, float)
    return float(np.sum(np.abs(x)) - 0.5 + 0.5 * np.sum(x * x))


def make_models(n, npt):
    obj = cproblem.ObjectiveFunction(f_obj, False, False)
    bounds = cproblem.BoundConstraints(cproblem.Bounds(np.full(n, -np.inf), np.full(n, np.inf)))
    linear = cproblem.LinearConstraints([], n, False)
    nonlinear = cproblem.NonlinearConstraints(
        [NonlinearConstraint(f_obj, -np.inf, 0.0), NonlinearConstraint(f_eq, 0.0, 0.0)], False, False)
    pb = cproblem.Problem(obj, np.zeros(n), bounds, linear, nonlinear, None, 1e-8, False, False, 1,
                          sys.maxsize, False)
    options = {"debug": False, "feasibility_tol": 1e-8, "filter_size": sys.maxsize, "history_size": sys.maxsize,
               "maxfev": 10 ** 6, "maxiter": 10 ** 6, "nb_points": npt, "radius_init": 1.0, "radius_final": 1e-6,
               "scale": False, "store_history": False, "target": -np.inf, "disp": False}
    with np.errstate(all="ignore"):
        models = cmodels.Models(pb, options, 0.0)
    return models, options


# ------------------------------------------------------------------ exact reference (ref_lfn)
def fr(v):
    return Fr(float(v))


def kkt(Y, n):
    """Exact KKT matrix W of the interpolation system for points Y (relative to the base)."""
    npt = len(Y)
    m = npt + n + 1
    W = [[Fr(0)] * m for _ in range(m)]
    for i in range(npt):
        for j in range(i, npt):
            d = sum(a * b for a, b in zip(Y[i], Y[j]))
            v = d * d / 2
            W[i][j] = v
            W[j][i] = v
        W[i][npt] = Fr(1)
        W[npt][i] = Fr(1)
        for t in range(n):
            W[i][npt + 1 + t] = Y[i][t]
            W[npt + 1 + t][i] = Y[i][t]
    return W


def solve_multi(W, rhs_list):
    """Solve W z = r for several right-hand sides; None if singular."""
    m = len(W)
    k = len(rhs_list)
    M = [list(W[i]) + [r[i] for r in rhs_list] for i in range(m)]
    for c in range(m):
        p = None
        for r in range(c, m):
            if M[r][c] != 0:
                p = r
                break
        if p is None:
            return None
        M[c], M[p] = M[p], M[c]
        piv = M[c][c]
        if piv != 1:
            M[c] = [v / piv for v in M[c]]
        rowc = M[c]
        for r in range(m):
            if r != c:
                f = M[r][c]
                if f != 0:
                    M[r] = [a - f * b for a, b in zip(M[r], rowc)]
    return [[M[i][m + j] for i in range(m)] for j in range(k)]


def lfn_model(Y, n, sols):
    """Turn solutions [lambda; c; g] into explicit (c, g, H)."""
    npt = len(Y)
    out = []
    for z in sols:
        lam = z[:npt]
        c = z[npt]
        g = z[npt + 1:]
        H = [[sum(lam[k] * Y[k][i] * Y[k][j] for k in range(npt)) for j in range(n)] for i in range(n)]
        out.append((c, list(g), H))
    return out


def q_eval(model, d):
    c, g, H = model
    n = len(g)
    return c + sum(g[i] * d[i] for i in range(n)) + sum(d[i] * H[i][j] * d[j] for i in range(n) for j in range(n)) / 2


def q_grad(model, d):
    c, g, H = model
    n = len(g)
    return [g[i] + sum(H[i][j] * d[j] for j in range(n)) for i in range(n)]


class Ref:
    """Exact reference state."""

    __slots__ = ("n", "xb", "Y", "vals", "models", "err")

    def key(self):
        return (tuple(self.xb), tuple(tuple(y) for y in self.Y), tuple(tuple(v) for v in self.vals),
                tuple((m[0], tuple(m[1]), tuple(tuple(r) for r in m[2])) for m in self.models))

    def copy(self):
        r = Ref()
        r.n = self.n
        r.xb = list(self.xb)
        r.Y = [list(y) for y in self.Y]
        r.vals = [list(v) for v in self.vals]
        r.models = [(m[0], list(m[1]), [list(row) for row in m[2]]) for m in self.models]
        r.err = [tuple(e) for e in self.err]
        return r


C_ERR = 1e3


def _scale_of(Y):
    return max(max((float(sum(v * v for v in y)) ** 0.5 for y in Y), default=0.0), EPS)


def solve_budget(Y, n, z, kappa, extra=0.0):
    """Rounding budget (errc, errg, errH) of one solve: the solver works on the
    scaled system a z_s = D r with z = D z_s, D = diag(1/s^2.., s^2, s..); its
    error in z_s is bounded by C*eps*kappa(a)*(|z_s| + extra)."""
    npt = len(Y)
    s = _scale_of(Y)
    zs = max(max((abs(float(v)) * s * s for v in z[:npt]), default=0.0), abs(float(z[npt])) / (s * s),
             max((abs(float(v)) / s for v in z[npt + 1:]), default=0.0))
    E = C_ERR * EPS * max(kappa, 1.0) * (zs + extra / (s * s))
    return (s * s * E, s * E, npt * E)


def model_mag(model, R):
    c, g, H = model
    return abs(float(c)) + R * sum(abs(float(v)) for v in g) + R * R * sum(abs(float(v)) for row in H for v in row)


def ref_build(n, xb, Y, vals, kappa=1.0):
    r = Ref()
    r.n = n
    r.xb = list(xb)
    r.Y = [list(y) for y in Y]
    r.vals = [list(v) for v in vals]
    W = kkt(r.Y, n)
    zeros = [Fr(0)] * (n + 1)
    sols = solve_multi(W, [list(v) + zeros for v in r.vals])
    if sols is None:
        return None
    r.models = lfn_model(r.Y, n, sols)
    r.err = [solve_budget(r.Y, n, z, kappa) for z in sols]
    return r


def ref_update(ref, k, y_abs, newvals, kappa=1.0, R=None, extra_mag=None):
    """Replace point k by y (absolute coordinates); returns the new Ref or None if not poised.  ``R`` is the
    distance from the base within which the old model is evaluated (default: the few radii of the lattice);
    ``extra_mag`` (per function) replaces the magnitude of the old model in the rounding budget (real runs: the
    magnitude of the terms of its stored representation, which may cancel)."""
    n = ref.n
    y = [a - b for a, b in zip(y_abs, ref.xb)]
    new = ref.copy()
    new.Y[k] = y
    W = kkt(new.Y, n)
    npt = len(new.Y)
    rhs = []
    for fi in range(len(ref.vals)):
        res = newvals[fi] - q_eval(ref.models[fi], y)
        r = [Fr(0)] * (npt + n + 1)
        r[k] = res
        rhs.append(r)
        new.vals[fi][k] = newvals[fi]
    sols = solve_multi(W, rhs)
    if sols is None:
        return None
    add = lfn_model(new.Y, n, sols)
    if R is None:
        R = 4.0 * n ** 0.5 + 1.0
    new.err = []
    for fi in range(len(ref.vals)):
        b = solve_budget(new.Y, n, sols[fi], kappa,
                         extra=model_mag(ref.models[fi], R) if extra_mag is None else extra_mag[fi])
        new.err.append(tuple(a + c for a, c in zip(ref.err[fi], b)))
    for fi in range(len(ref.vals)):
        c0, g0, H0 = ref.models[fi]
        c1, g1, H1 = add[fi]
        new.models[fi] = (c0 + c1, [a + b for a, b in zip(g0, g1)],
                          [[H0[i][j] + H1[i][j] for j in range(n)] for i in range(n)])
    return new


def ref_shift(ref, b_abs):
    n = ref.n
    d = [a - b for a, b in zip(b_abs, ref.xb)]
    new = ref.copy()
    new.xb = list(b_abs)
    new.Y = [[a - b for a, b in zip(y, d)] for y in ref.Y]
    R = 4.0 * n ** 0.5 + 1.0
    new.err = []
    for fi, m in enumerate(ref.models):
        new.models[fi] = (q_eval(m, d), q_grad(m, d), [list(r) for r in m[2]])
        ec, eg, eh = ref.err[fi]
        mag = 10 * EPS * model_mag(m, R)
        new.err.append((ec + eg * R + eh * R * R + mag, eg + eh * R + mag, eh + mag))
    return new


def ref_reset(ref, kappa=1.0):
    return ref_build(ref.n, ref.xb, ref.Y, ref.vals, kappa)


# ------------------------------------------------------------------ harness-built conditioning
def truncates(xpt):
    """Does the solver's eigenvalue truncation (|eig| <= eps on the scaled matrix) apply to this set?  Decided by
    the harness from its own copy of the scaled matrix (with a factor 4 of safety), not from the flag the code
    returns."""
    n, npt = xpt.shape
    scale = max(float(np.max(np.linalg.norm(xpt, axis=0), initial=EPS)), EPS)
    xs = xpt / scale
    a = np.zeros((npt + n + 1, npt + n + 1))
    a[:npt, :npt] = 0.5 * (xs.T @ xs) ** 2.0
    a[:npt, npt] = 1.0
    a[npt, :npt] = 1.0
    a[:npt, npt + 1:] = xs.T
    a[npt + 1:, :npt] = xs
    with np.errstate(all="ignore"):
        ev = np.linalg.eigvalsh(a)
    return (not np.all(np.isfinite(ev))) or bool(np.min(np.abs(ev)) <= 4.0 * EPS)


def kappa_of(xpt):
    """2-norm condition number of the scaled KKT matrix (same scaling rule as the solver, rebuilt here)."""
    n, npt = xpt.shape
    scale = max(float(np.max(np.linalg.norm(xpt, axis=0), initial=EPS)), EPS)
    xs = xpt / scale
    a = np.zeros((npt + n + 1, npt + n + 1))
    a[:npt, :npt] = 0.5 * (xs.T @ xs) ** 2.0
    a[:npt, npt] = 1.0
    a[npt, :npt] = 1.0
    a[:npt, npt + 1:] = xs.T
    a[npt + 1:, :npt] = xs
    with np.errstate(all="ignore"):
        sv = np.linalg.svd(a, compute_uv=False)
    if not np.all(np.isfinite(sv)) or sv[-1] <= 0:
        return float("inf")
    return float(sv[0] / sv[-1])


# ------------------------------------------------------------------ lattices
EXTRA_COORDS = []  # a client may add coordinates (C14 adds 2^-15: condition numbers around 1e10)


def lattice(n, level):
    """Absolute coordinates of candidate points."""
    if n == 1:
        vals = [0.0, 0.5, -0.5, 1.0, -1.0, 2.0, -2.0, T10, -T20]
        return [(v,) for v in vals]
    if level == "thin":
        vals = [0.0, 1.0, -1.0, T40]
    else:
        vals = [0.0, 1.0, -1.0, 2.0, -2.0, T10, T40] + list(EXTRA_COORDS)
    pts = list(itertools.product(vals, repeat=n))
    if n >= 3:
        pts = [p for p in pts if sum(1 for c in p if c in (T20, T40)) <= 1 and sum(1 for c in p if abs(c) == 2.0) <= 1]
    return pts


class ModelsClient:
    """E2 client.  ``oracle(state_after, info)`` is supplied by the property module."""

    def __init__(self, configs, oracle, depth_full, depth_thin=0, kappa_cap=None):
        self.configs = configs  # list of (n, npt)
        self.oracle = oracle
        self.depth_full = depth_full
        self.depth_thin = depth_thin
        self.kappa_cap = kappa_cap

    # a state: dict(n, npt, real=pickled Models, ref=Ref, hist=[ops], kappa=float, depth=int, opts)
    def initial(self):
        out = []
        for n, npt in self.configs:
            models, options = make_models(n, npt)
            it = models.interpolation
            xb = [fr(v) for v in it.x_base]
            Y = [[fr(v) for v in it.xpt[:, k]] for k in range(npt)]
            vals = [[fr(v) for v in models.fun_val], [fr(v) for v in models.cub_val[:, 0]],
                    [fr(v) for v in models.ceq_val[:, 0]]]
            ref = ref_build(n, xb, Y, vals, kappa_of(it.xpt))
            if ref is None:
                raise common.HarnessError("initial interpolation set is not poised")
            st = {"n": n, "npt": npt, "real": pickle.dumps(models), "ref": ref, "hist": [],
                  "kappa": kappa_of(it.xpt), "depth": 0, "trunc": False}
            viol = self.oracle(st, models, {"op": ("init",), "ill": False, "pre": None})
            if getattr(self.oracle, "keeps_object", False):
                st["real"] = pickle.dumps(models)
            if viol:
                st["init_viol"] = viol
            out.append((("init", n, npt), st))
        return out

    def ops(self, st):
        n, npt = st["n"], st["npt"]
        d = st["depth"]
        level = "full" if d < self.depth_full[n] else "thin"
        out = []
        for y in lattice(n, level):
            for k in range(npt):
                out.append(("upd", k, y))
        ref = st["ref"]
        seen = set()
        for k in range(npt):
            b = tuple(float(ref.xb[i] + ref.Y[k][i]) for i in range(n))
            if b not in seen and any(v != 0 for v in ref.Y[k]):
                seen.add(b)
                out.append(("shift", k, b))
        out.append(("reset",))
        return out

    def apply(self, st, op):
        """Advance real object and reference by one operation.  Returns (newstate, models, info) or None."""
        n = st["n"]
        ref = st["ref"]
        if op[0] == "upd":
            _, k, y = op
            vals = (f_obj(y), f_obj(y), f_eq(y))
            ynew = [list(v) for v in ref.Y]
            ynew[k] = [fr(a) - b for a, b in zip(y, ref.xb)]
            knew = kappa_of(np.array([[float(v) for v in yy] for yy in ynew]).T)
            newref = ref_update(ref, k, [fr(v) for v in y], [fr(v) for v in vals], knew)
            if newref is None:
                return None  # not poised: outside the quantifier
            models = pickle.loads(st["real"])
            pre = None
            with np.errstate(all="ignore"):
                ill = models.update_interpolation(k, np.array(y, float), float(vals[0]), np.array([vals[1]]),
                                                  np.array([vals[2]]))
            kappa = max(st["kappa"], kappa_of(models.interpolation.xpt))
            info = {"op": op, "ill": bool(ill), "vals": vals, "pre": pre}
        elif op[0] == "shift":
            _, k, b = op
            newref = ref_shift(ref, [fr(v) for v in b])
            models = pickle.loads(st["real"])
            pre = pickle.loads(st["real"]) if getattr(self.oracle, "needs_pre", False) else None
            opts = {"debug": False}
            with np.errstate(all="ignore"):
                models.shift_x_base(np.array(b, float), opts)
            kappa = max(st["kappa"], kappa_of(models.interpolation.xpt))
            info = {"op": op, "ill": False, "pre": pre}
        else:
            models = pickle.loads(st["real"])
            newref = ref_reset(ref, kappa_of(models.interpolation.xpt))
            if newref is None:
                return None
            with np.errstate(all="ignore"):
                models.reset_models()
            kappa = kappa_of(models.interpolation.xpt)
            a, rs, (ev, _) = cmodels.build_system(models.interpolation)
            info = {"op": op, "ill": bool(np.any(np.abs(ev) <= EPS)), "pre": None, "reset": True}
        new = {"n": n, "npt": st["npt"], "real": pickle.dumps(models), "ref": newref,
               "hist": st["hist"] + [list(op)], "kappa": kappa, "depth": st["depth"] + 1,
               "trunc": truncates(models.interpolation.xpt) if op[0] == "reset"
               else bool(st.get("trunc") or truncates(models.interpolation.xpt)),
               "flags": (["ill_conditioned"] if info.get("ill") else []) + [op[0]]}
        return new, models, info

    def expand(self, st):
        out = []
        maxd = self.depth_full[st["n"]] + self.depth_thin
        if st["depth"] >= maxd:
            return out
        for op in self.ops(st):
            try:
                res = self.apply(st, op)
            except np.linalg.LinAlgError:
                out.append((op, None, None, []))  # the documented way of refusing an ill-defined system
                continue
            if res is None:
                out.append((op, None, None, []))
                continue
            new, models, info = res
            viol = self.oracle(new, models, info)
            if getattr(self.oracle, "keeps_object", False):
                # the oracle itself calls methods of the object (e.g. determinants): carry the object on as it is
                # after those calls, so that sequences such as determinants -> shift -> determinants are explored
                new["real"] = pickle.dumps(models)
            key = (st["n"], st["npt"], new["ref"].key())
            out.append((op, key, new, viol))
        return out

    def conform(self, st):
        """Replay the history on a fresh Models object: identical float state."""
        models, _ = make_models(st["n"], st["npt"])
        cur = {"n": st["n"], "npt": st["npt"], "real": pickle.dumps(models), "ref": None, "hist": [],
               "kappa": 0.0, "depth": 0}
        for op in st["hist"]:
            op = tuple(tuple(x) if isinstance(x, list) else x for x in op)
            m = pickle.loads(cur["real"])
            with np.errstate(all="ignore"):
                if op[0] == "upd":
                    y = op[2]
                    m.update_interpolation(op[1], np.array(y, float), float(f_obj(y)), np.array([f_obj(y)]),
                                           np.array([f_eq(y)]))
                elif op[0] == "shift":
                    m.shift_x_base(np.array(op[2], float), {"debug": False})
                else:
                    m.reset_models()
            cur["real"] = pickle.dumps(m)
        a = pickle.loads(cur["real"])
        b = pickle.loads(st["real"])
        same = (np.array_equal(a.interpolation.xpt, b.interpolation.xpt)
                and np.array_equal(a.interpolation.x_base, b.interpolation.x_base)
                and np.array_equal(a.fun_val, b.fun_val)
                and np.array_equal(a._fun._grad, b._fun._grad, equal_nan=True)
                and np.array_equal(a._fun._i_hess, b._fun._i_hess, equal_nan=True)
                and np.array_equal(a._fun._e_hess, b._fun._e_hess, equal_nan=True))
        if not same:
            return [{"key": "HARNESS:replay-diverges", "what": "replaying a history on a fresh Models object gives a "
                     "different floating-point state", "case": {"engine": "E2-models", "n": st["n"], "npt": st["npt"],
                                                                "hist": st["hist"]}}]
        return []


def replay_history(n, npt, hist, oracle):
    """Stand-alone replay of one history (used by --replay)."""
    client = ModelsClient([(n, npt)], oracle, {1: 99, 2: 99, 3: 99})
    (key, st), = client.initial()
    viol = list(st.get("init_viol", []))
    for op in hist:
        op = tuple(tuple(x) if isinstance(x, list) else x for x in op)
        res = client.apply(st, op)
        if res is None:
            return viol
        st, models, info = res
        viol = oracle(st, models, info)
        if getattr(oracle, "keeps_object", False):
            st["real"] = pickle.dumps(models)
        if viol:
            return viol
    return viol


def case_of(st):
    return {"engine": "E2-models", "n": st["n"], "npt": st["npt"], "hist": st["hist"]}
