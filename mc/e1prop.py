"""Boilerplate shared by the property modules that run on engine E1."""
from . import e1, explore, oracles

STEP_KINDS = ("init", "tr", "soc", "geo", "result")


def run_case_generic(case, oracle, menu=explore.default_menu, horizon=None,
                     extra_stats=None, post=None, timeout=60.0):
    """Run one root (and its deviation subtree), apply ``oracle`` to every
    execution.  ``case['explore']`` is the deviation bound of this root."""
    stats = {"runs": 0, "evals": 0, "crashed": 0, "deviated_runs": 0, "returned": 0}
    for k in STEP_KINDS:
        stats["evals_" + k] = 0
    viol = {}
    digests = []
    nontrivial = []
    bound = case.get("explore", 0)
    base = {k: v for k, v in case.items() if k != "explore"}
    recs = []
    for rec in explore.explore(base, bound, menu=menu, horizon=horizon, timeout=timeout):
        if rec.spy_errors:
            from . import common
            raise common.HarnessError("the harness' monitors failed (an internal name they read has probably "
                                      "changed): " + rec.spy_errors[0])
        stats["runs"] += 1
        stats["evals"] += len(rec.pcalls)
        stats["deviated_runs"] += 1 if rec.case.get("dev") else 0
        for p in rec.pcalls:
            key = "evals_" + str(p["kind"])
            stats[key] = stats.get(key, 0) + 1
        if rec.exc is not None:
            stats["crashed"] += 1
        if rec.res is not None:
            stats["returned"] += 1
            st = "status_%d" % int(rec.res.status)
            stats[st] = stats.get(st, 0) + 1
        d = e1.digest(rec)
        digests.append(d)
        if any(p["kind"] in ("tr", "soc", "geo") for p in rec.pcalls) or rec.ndev:
            nontrivial.append(d)
        table = oracles.eval_table(rec)
        for v in oracle(rec, table):
            v["case"] = rec.case
            viol.setdefault(v["key"], v)
        if extra_stats is not None:
            extra_stats(rec, table, stats)
        if post is not None:
            recs.append(rec)
    if post is not None:
        for v in post(base, recs, stats):
            viol.setdefault(v["key"], v)
    return {"viol": list(viol.values()), "stats": stats, "digests": digests,
            "nontrivial": nontrivial}


def coverage_generic(agg, tier, roots, rule, need=(), dev_bound=None, extra=None):
    s = agg.stats
    herr = []
    if not s.get("runs"):
        herr.append("no execution was explored")
    for k in need:
        if not s.get(k):
            herr.append(f"non-vacuity counter {k} is zero")
    nv = {k: (len(v) if isinstance(v, set) else int(v)) for k, v in sorted(s.items())}
    cov = {
        "evaluations": int(s.get("runs", 0)),
        "distinct_nontrivial": len(agg.nontrivial),
        "distinct_observations": len(agg.digests),
        "rule": rule,
        "exhaustive": True,
        "roots": len(roots),
        "problem_evaluations": int(s.get("evals", 0)),
        "non_vacuity": nv,
    }
    if dev_bound is not None:
        cov["deviation_bound_completed"] = dev_bound
    if extra:
        cov.update(extra)
    return cov, herr
