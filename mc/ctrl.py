"""Roots, menus and oracles of the control-skeleton exploration (engine E3), shared by C05, C07, C09, C18."""
import numpy as np

from . import alpha, e1, e3, explore

INF = float("inf")


def problems():
    """One-variable problems fed to the real Problem/_eval/_build_result under the stub."""
    out = []
    # P1: objective + always-feasible nonlinear constraint, finite target (reachable only through a deviation)
    c = alpha.base_case(1, ("free",), "in", "quad_far", [
        {"kind": "nl", "form": "nlc", "funs": [{"kind": "aff", "a": [1.0], "b": 1e6}], "lb": [-INF], "ub": [0.0]}],
        options={"target": -1.0}, callback={"sig": "xk", "behav": "passive"})
    out.append(("P1", c))
    # P2: feasibility problem with an infeasible constraint (feasible only through a deviation)
    c = alpha.base_case(1, ("free",), "in", "none", [
        {"kind": "nl", "form": "nlc", "funs": [{"kind": "ball", "c": [1e3], "r2": 1.0}], "lb": [-INF], "ub": [0.0]}],
        options={}, callback={"sig": "xk", "behav": "passive"})
    out.append(("P2", c))
    # P3: bounded variable so that radius_init is reduced to fit the box
    c = alpha.base_case(1, ("narrow",), "in", "quad_far", [
        {"kind": "nl", "form": "nlc", "funs": [{"kind": "aff", "a": [1.0], "b": 1e6}], "lb": [-INF], "ub": [0.0]}],
        options={"target": -1.0}, callback={"sig": "xk", "behav": "passive"})
    out.append(("P3", c))
    return out


def roots(tier, deep=True):
    """deep: deviation bound 2 (quick) / 3 (thorough) around the nominal scripts; otherwise 1 / 2."""
    out = []
    for pname, base in problems():
        for policy, maxiter in (("long", 6), ("short", 14), ("lowratio", 8)):
            for npt in (2, 3):
                if pname == "P3" and (npt == 2 or policy == "lowratio"):
                    continue
                # deviation bound 2 around the nominal script, generous evaluation budget
                c = dict(base)
                c["options"] = dict(base["options"], maxiter=maxiter, nb_points=npt, radius_final=1e-2, maxfev=200)
                c["stub"] = {"policy": policy}
                c["explore"] = (2 if tier == "quick" else 3) if deep else (1 if tier == "quick" else 2)
                if tier == "thorough" and policy == "short" and deep:
                    c["explore"] = 2
                c["tag"] = dict(base["tag"], problem=pname, policy=policy, npt=npt, part="ctrl-d")
                out.append(c)
                # every evaluation budget around the number of interpolation points, deviation bound 1
                for maxfev in range(1, npt + 7):
                    c = dict(base)
                    c["options"] = dict(base["options"], maxiter=maxiter, nb_points=npt, radius_final=1e-2,
                                        maxfev=maxfev)
                    c["stub"] = {"policy": policy}
                    c["explore"] = 1 if tier == "quick" else 2
                    c["tag"] = dict(base["tag"], problem=pname, policy=policy, npt=npt, part="ctrl-maxfev")
                    out.append(c)
    return out


def menu(ent, case):
    fid = ent["fid"]
    if fid.startswith("S:"):
        site = fid[2:]
        return [m for m in e3.MENUS[site] if m != ent["val"]]
    if fid == "obj":
        return ["target", "target_eq", "nan"]
    if fid.startswith("con"):
        return [["feasible", 0], ["nan", 0]]
    if fid == "cb":
        return ["stop"]
    return []


def horizon(rec, pos, ent, ndev):
    # second and third deviations only within the first 60 choice points and the last 10
    if ndev == 0:
        return True
    return pos < 60 or pos >= len(rec.points) - 10


def invariants(rec, table=None):
    """C18 on every control path: radius_final <= resolution <= radius, monotone resolution."""
    from . import oracles
    viol = []
    if not rec.case.get("stub"):
        return viol
    rf = oracles.expected_radius_final(rec)
    last = None
    for t in rec.tr:
        if "where" not in t:
            continue
        rad, res = t["radius"], t["resolution"]
        if t["where"] != "init" and not (rf <= res * (1 + 1e-15) and res <= rad):
            viol.append({"key": "ctrl:ordering", "what": f"at {t['where']}: radius_final={rf} resolution={res} "
                                                          f"radius={rad}"})
            break
        if last is not None and res > last:
            viol.append({"key": "ctrl:resolution-increased", "what": f"at {t['where']}: {last} -> {res}"})
            break
        if t["where"] != "init":
            last = res
    if rec.res is not None and int(rec.res.status) == 0 and rec.build is not None:
        res = rec.build["resolution"]
        if res is None or not (abs(res - rf) <= 1e-15 * max(rf, 1e-300)):
            viol.append({"key": "ctrl:status0-resolution", "what": f"status 0 with resolution {res}, "
                                                                    f"radius_final {rf}"})
    return viol


def stats(rec, table, st):
    if not rec.case.get("stub"):
        return
    st["ctrl_runs"] = st.get("ctrl_runs", 0) + 1
    st["ctrl_choice_points"] = st.get("ctrl_choice_points", 0) + len(rec.points)
    for site, val in rec.notes.get("sites", []):
        k = f"site_{site}_{val}"
        st[k] = st.get(k, 0) + 1
    if rec.notes.get("resets"):
        st["ctrl_resets"] = st.get("ctrl_resets", 0) + 1
    if rec.notes.get("shifts"):
        st["ctrl_shifts"] = st.get("ctrl_shifts", 0) + 1
    if rec.res is not None:
        k = "ctrl_status_%d" % int(rec.res.status)
        st[k] = st.get(k, 0) + 1


# --------------------------------------------------------------------------------------------------
# conformance replay of real runs through the skeleton
# --------------------------------------------------------------------------------------------------
def conformance_suite(tier):
    cases = []
    for n in ([1, 2] if tier == "quick" else [1, 2, 3]):
        for cons in ["none", "lin_le", "ball_le", "cubic_le", "cubic_eq", "lin+nl"]:
            for obj in ["quad", "quad_far", "abs"]:
                for pats in [("free",) * n, ("wide",) * n]:
                    if tier == "quick" and obj == "abs" and pats[0] == "free":
                        continue
                    cases.append(alpha.base_case(n, pats, "in", obj, cons,
                                                 options={"maxfev": 80 if tier == "quick" else 300}))
    # exits of every kind
    cases.append(alpha.base_case(1, ("wide",), "in", "quad", "ball_le", options={"maxiter": 3}))
    cases.append(alpha.base_case(2, ("wide",) * 2, "in", "quad", "none", options={"target": 0.5}))
    cases.append(alpha.base_case(2, ("wide",) * 2, "out", "none", "ball_le", options={}))
    cases.append(alpha.base_case(2, ("free",) * 2, "in", "quad", "cubic_le", options={"maxfev": 9},
                                 callback={"sig": "xk", "behav": "stop", "k": 8}))
    ok = 0
    fails = []
    interactions = 0
    witnessed = {}
    for c in cases:
        def factory(c=c):
            return e1.build(c, e1.Rec(c))
        good, msg, n = e3.conformance(factory)
        interactions += n
        if good:
            ok += 1
            for (site, cls), k in getattr(e3.conformance, "last_classes", {}).items():
                witnessed[f"{site}:{cls}"] = witnessed.get(f"{site}:{cls}", 0) + k
        else:
            fails.append((c["tag"], msg))
    conformance_suite.witnessed = witnessed
    return ok, fails, interactions


SITE_KEYS = [f"site_{s}_{v}" for s, vals in e3.MENUS.items() for v in vals]
