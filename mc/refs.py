"""Boring reference models (DESIGN 4.3)."""
import math
import re

import numpy as np

INF = float("inf")


# --------------------------------------------------------------------------
# ref_filter: what "the best point evaluated" means (property C03)
# --------------------------------------------------------------------------
def _isnan(a):
    return a != a


def best_acceptable(hist, ret, tol, penalty):
    """Is ``ret`` an acceptable answer to "best of ``hist``"?

    hist : list of (f, v) of all candidate points, oldest first
    ret  : index into hist of the point returned
    Returns None if acceptable, else a short reason.  Demands exactly what
    the statement of C03 says and nothing more (DESIGN 5/C03).
    """
    f_r, v_r = hist[ret]
    full = [i for i, (f, v) in enumerate(hist) if not _isnan(f) and not _isnan(v)]
    # (4) NaN never preferred to a defined value
    if full and (_isnan(f_r) or _isnan(v_r)):
        return "nan-preferred"
    feas = [i for i, (f, v) in enumerate(hist) if not _isnan(f) and v <= tol]
    if feas:
        if not (v_r <= tol) or _isnan(f_r):
            return "infeasible-returned-while-feasible-exists"
        fmin = min(hist[i][0] for i in feas)
        if f_r != fmin:
            return "not-least-feasible-objective"
        cand = [i for i in feas if hist[i][0] == fmin]
        vmin = min(hist[i][1] for i in cand)
        if v_r != vmin:
            return "tie-not-least-violation"
        cand = [i for i in cand if hist[i][1] == vmin]
        if ret != cand[-1]:
            return "tie-not-most-recent"
        return None
    # no feasible point with a defined objective
    dom = [i for i in full
           if hist[i][0] <= f_r and hist[i][1] <= v_r
           and (hist[i][0] < f_r or hist[i][1] < v_r)]
    if dom and not (_isnan(f_r) or _isnan(v_r)):
        return "dominated"
    defined = [i for i, (f, v) in enumerate(hist)
               if not _isnan(f) and math.isfinite(v)]
    if defined:
        def merit(i):
            f, v = hist[i]
            return f + penalty * v
        merits = {i: merit(i) for i in defined}
        merits = {i: m for i, m in merits.items() if not _isnan(m)}
        if not merits:
            return None
        if ret not in merits:
            return "undefined-merit-returned"
        mmin = min(merits.values())
        if merits[ret] != mmin:
            return "not-least-merit"
        cand = [i for i in merits if merits[i] == mmin]
        vmin = min(hist[i][1] for i in cand)
        if v_r != vmin:
            return "tie-not-least-violation"
        cand = [i for i in cand if hist[i][1] == vmin]
        fmin = min(hist[i][0] for i in cand)
        if f_r != fmin:
            return "tie-not-least-objective"
        cand = [i for i in cand if hist[i][0] == fmin]
        if ret != cand[-1]:
            return "tie-not-most-recent"
    return None


def dominates(a, b):
    """a dominates-or-equals b (both fully defined)."""
    return a[0] <= b[0] and a[1] <= b[1]


def ref_retained(hist, size):
    """Documented retention rule of a finite filter: keep the non-dominated
    points (a newcomer equal to or dominated by a retained point is not kept,
    NaN entries are dropped as soon as a defined point arrives), evict the
    oldest when more than ``size`` remain.  Returns indices into hist."""
    kept = []
    for i, (f, v) in enumerate(hist):
        nf, nv = _isnan(f), _isnan(v)
        if nf and nv:
            include = len(kept) == 0
        elif nf:
            include = all((_isnan(hist[k][0]) and v < hist[k][1]) or _isnan(hist[k][1])
                          for k in kept)
        elif nv:
            include = all((_isnan(hist[k][1]) and f < hist[k][0]) or _isnan(hist[k][0])
                          for k in kept)
        else:
            include = all(_isnan(hist[k][0]) or _isnan(hist[k][1])
                          or f < hist[k][0] or v < hist[k][1]
                          or (f == hist[k][0] and v == hist[k][1]) for k in kept)
        if not include:
            continue
        new = []
        for k in kept:
            fk, vk = hist[k]
            if nf:
                rm = _isnan(fk)
            elif nv:
                rm = _isnan(vk)
            else:
                rm = _isnan(fk) or _isnan(vk) or (f <= fk and v <= vk)
            if not rm:
                new.append(k)
        new.append(i)
        if len(new) > size:
            new.pop(0)
        kept = new
    return kept


# --------------------------------------------------------------------------
# ref_status: the documented status table, parsed from minimize.__doc__
# --------------------------------------------------------------------------
def status_table(doc):
    """Parse the ``list-table`` of exit statuses of the docstring."""
    out = {}
    m = re.search(r"\* - Exit status\s*\n\s*- Description(.*?)Other Parameters", doc, re.S)
    if not m:
        return out
    body = m.group(1)
    for code, text in re.findall(r"\* - (-?\d+)\s*\n\s*- (.*?)(?=\n\s*\* - |\Z)", body, re.S):
        out[int(code)] = " ".join(text.split()).rstrip(".")
    return out


def doc_defaults(doc):
    """Parse 'name : type, optional ... Default is ``value``.' phrases."""
    out = {}
    for name, body in re.findall(
            r"\n\s+(\w+) : (?:bool|int|float), optional\n(.*?)(?=\n\s+\w+ : |\n\n)", doc, re.S):
        m = re.search(r"Default\s+is\s+``(.*?)``", " ".join(body.split()))
        if m:
            out[name] = m.group(1)
    return out
