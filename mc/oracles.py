"""Oracles evaluated on one E1 execution (a Recorder).  Each returns a list
of violations {key, what, detail}.  Keys are stable identifiers used by
known_findings.json."""
import math

import numpy as np

from . import e1, refs

cobyqa = e1.cobyqa
EPS = float(np.finfo(float).eps)
INF = float("inf")
_STATUS_DOC = None


def V(key, what, **detail):
    return {"key": key, "what": what, "detail": detail}


def user_box(case):
    n = case["n"]
    b = case.get("bounds")
    if b is None:
        return np.full(n, -INF), np.full(n, INF)
    lb = np.array(b["lb"], float)
    ub = np.array(b["ub"], float)
    lb = np.where(np.isnan(lb), -INF, lb)
    ub = np.where(np.isnan(ub), INF, ub)
    return lb, ub


def consistent(case):
    lb, ub = user_box(case)
    return bool(np.all(lb <= ub) and np.all(lb < INF) and np.all(ub > -INF))


def all_fixed(case):
    lb, ub = user_box(case)
    tol = e1.arrays_tol(lb, ub)
    return bool(np.all((lb <= ub) & (np.abs(lb - ub) < tol)))


def feas_tol(case):
    return float(case.get("options", {}).get("feasibility_tol", math.sqrt(EPS)))


def group_point(rec, p, calls):
    """User-space point of one evaluation, from the user-call log."""
    for c in calls:
        if c["fid"] != "cb" and c["xshape"] == (rec.case["n"],):
            return c["x"]
    if rec.pb is not None:  # no user function saw the point: trusted mapping
        return np.asarray(rec.pb.build_x(p["x"]), float)
    return None


def eval_table(rec):
    """Per evaluation: point, objective value, constraint values (with the
    last value of a function whose call was legitimately skipped), callback
    entry; all from the harness log."""
    nnl = e1.n_nl(rec.case)
    table = []
    last = {}
    for p, calls in e1.eval_groups(rec):
        row = {"p": p, "x": group_point(rec, p, calls), "f": None,
               "cons": [None] * nnl, "cb": [], "calls": calls}
        for c in calls:
            if c["fid"] == "obj":
                if row["f"] is None:
                    row["f"] = c["val"]
            elif c["fid"] == "cb":
                row["cb"].append(c)
            else:
                j = int(c["fid"][3:])
                if row["cons"][j] is None:
                    row["cons"][j] = c["val"]
                last[j] = (c["x"], c["val"])
        for j in range(nnl):
            if row["cons"][j] is None and j in last and row["x"] is not None \
                    and e1.same_bits(last[j][0], row["x"]):
                row["cons"][j] = last[j][1]
        if rec.case["obj"]["kind"] == "none":
            row["f"] = 0.0
        complete = row["f"] is not None and all(v is not None for v in row["cons"])
        row["complete"] = complete
        if complete and row["x"] is not None:
            row["v"], row["vtol"] = e1.ref_violation(rec.case, row["x"], row["cons"])
        else:
            row["v"], row["vtol"] = None, 0.0
        table.append(row)
    return table


def close(a, b, tol):
    if a is None or b is None:
        return False
    if a != a or b != b:
        return (a != a) and (b != b)
    if a == b:
        return True
    return abs(a - b) <= tol


# --------------------------------------------------------------------------
# C02
# --------------------------------------------------------------------------
def c02(rec, table=None):
    res = rec.res
    if res is None:
        return []
    out = []
    table = table or eval_table(rec)
    x = np.asarray(res.x, float)
    rows = [r for r in table if r["x"] is not None and r["complete"]
            and e1.same_bits(r["x"], x)]
    if not rows:
        near = [r for r in table if r["x"] is not None and r["x"].shape == x.shape]
        d = min((float(np.max(np.abs(r["x"] - x))) for r in near), default=None)
        out.append(V("x-not-evaluated",
                     f"returned x={x.tolist()} is not a point at which the problem was evaluated "
                     f"(closest evaluated point differs by {d})", status=int(res.status)))
        return out
    ok_f = [r for r in rows if e1.feq(r["f"], res.fun)]
    if not ok_f:
        out.append(V("fun-not-value-at-x",
                     f"fun={res.fun!r} is not the objective value {rows[-1]['f']!r} logged at the returned x",
                     status=int(res.status)))
        return out
    ok_v = [r for r in ok_f if close(float(res.maxcv), r["v"], r["vtol"] + 4 * EPS * abs(r["v"] or 0.0))]
    if not ok_v:
        r = ok_f[-1]
        kind = "nan" if (r["v"] != r["v"] or float(res.maxcv) != float(res.maxcv)) else "value"
        out.append(V(f"maxcv-wrong:{kind}",
                     f"maxcv={float(res.maxcv)!r} but the true maximum violation at the returned x is {r['v']!r}",
                     status=int(res.status)))
    return out


# --------------------------------------------------------------------------
# C05
# --------------------------------------------------------------------------
def c05(rec, table=None):
    res = rec.res
    if res is None:
        return []
    out = []
    case = rec.case
    table = table or eval_table(rec)
    nev = len(table)
    opts = case.get("options", {})
    if "maxfev" in opts:
        maxfev = int(opts["maxfev"])
    elif rec.build is not None and "maxfev" in rec.build["options"]:
        maxfev = int(rec.build["options"]["maxfev"])
    else:
        maxfev = None
    if case["obj"]["kind"] != "none":
        nobj = rec.counts.get("obj", 0)
        if nobj != nev:
            out.append(V("obj-calls-vs-evals", f"{nobj} objective calls for {nev} evaluations"))
    if case.get("callback") is not None:
        ncb = rec.counts.get("cb", 0)
        if ncb != nev:
            out.append(V("callback-calls-vs-evals", f"{ncb} callback calls for {nev} evaluations"))
    # the budget covers the constraint functions as well: none of them is called more often than there are
    # evaluations
    for j, c in enumerate(c for c in case.get("cons", []) if c["kind"] == "nl"):
        if True:
            ncon = rec.counts.get(f"con{j}", 0)
            if ncon > nev:  # fewer is possible: scipy does not call the function again at an unchanged point
                out.append(V("con-calls-vs-evals", f"{ncon} calls of constraint function {j} for {nev} evaluations"))
                break
    if int(res.nfev) != nev:
        out.append(V("nfev-mismatch", f"nfev={res.nfev} but {nev} evaluations were performed"))
    if maxfev is not None and nev > maxfev:
        out.append(V("maxfev-exceeded", f"{nev} evaluations with maxfev={maxfev}"))
    maxiter = opts.get("maxiter")
    if maxiter is None and rec.build is not None:
        maxiter = rec.build["options"].get("maxiter")
    if maxiter is not None and int(res.nit) > int(maxiter):
        out.append(V("maxiter-exceeded", f"nit={res.nit} with maxiter={maxiter}"))
    if opts.get("store_history"):
        hs = int(opts.get("history_size", 2 ** 62))
        if not hasattr(res, "fun_history") or not hasattr(res, "maxcv_history"):
            out.append(V("history-missing", "store_history=True but the result has no history"))
        else:
            want = table[-min(nev, hs):] if nev else []
            fh = np.asarray(res.fun_history, float)
            mh = np.asarray(res.maxcv_history, float)
            if fh.shape != (len(want),) or mh.shape != (len(want),):
                out.append(V("history-length",
                             f"history lengths {fh.shape}/{mh.shape}, expected {len(want)} "
                             f"(nfev={nev}, history_size={hs})"))
            else:
                for i, r in enumerate(want):
                    if r["complete"] and not e1.feq(fh[i], r["f"]):
                        out.append(V("fun-history-wrong",
                                     f"fun_history[{i}]={fh[i]!r}, objective returned {r['f']!r}"))
                        break
                for i, r in enumerate(want):
                    if r["complete"] and not close(float(mh[i]), r["v"],
                                                   r["vtol"] + 4 * EPS * abs(r["v"] or 0.0)):
                        out.append(V("maxcv-history-wrong",
                                     f"maxcv_history[{i}]={mh[i]!r}, true violation {r['v']!r}"))
                        break
    return out


# --------------------------------------------------------------------------
# C07
# --------------------------------------------------------------------------
def status_doc():
    global _STATUS_DOC
    if _STATUS_DOC is None:
        _STATUS_DOC = refs.status_table(cobyqa.minimize.__doc__)
        if sorted(_STATUS_DOC) != [-2, -1, 0, 1, 2, 3, 4, 5, 6]:
            raise e1.common.HarnessError("could not parse the status table of minimize.__doc__: "
                                         + repr(_STATUS_DOC))
    return _STATUS_DOC


def expected_radius_final(rec):
    """radius_final after the documented box adjustment, computed by the harness."""
    case = rec.case
    opts = case.get("options", {})
    if "radius_final" in opts:
        rf = float(opts["radius_final"])
    elif "radius_init" in opts:
        rf = min(1e-6, float(opts["radius_init"]))
    else:
        rf = 1e-6
    lb, ub = user_box(case)
    tol = e1.arrays_tol(lb, ub)
    free = ~((lb <= ub) & (np.abs(lb - ub) < tol))
    if not np.any(free):
        return rf
    w = (ub - lb)[free]
    scaled = bool(opts.get("scale")) and np.all(np.isfinite(w))
    max_radius = 1.0 if scaled else 0.5 * float(np.min(w))
    return min(rf, max_radius)


def c07(rec, table=None):
    res = rec.res
    if res is None:
        return []
    out = []
    case = rec.case
    table = table or eval_table(rec)
    doc = status_doc()
    st = res.status
    if not isinstance(st, (int, np.integer)) or int(st) not in doc:
        return [V("status-unknown", f"status {st!r} is not a documented code")]
    st = int(st)
    msg = str(res.message).rstrip(".")
    if msg != doc[st]:
        out.append(V(f"message-mismatch:{st}", f"status {st} carries message {res.message!r}, "
                                                f"documented: {doc[st]!r}"))
    tol = feas_tol(case)
    opts = case.get("options", {})
    nev = len(table)
    fun = float(res.fun)
    mcv = float(res.maxcv)
    if st == 0:
        fw = rec.framework
        resn = rec.build["resolution"] if rec.build else None
        rf = expected_radius_final(rec)
        if resn is None or not (resn <= rf * (1 + 4 * EPS)):
            out.append(V("status0-resolution", f"status 0 with final resolution {resn} > radius_final {rf}"))
    elif st == 1:
        target = float(opts.get("target", -INF))
        if not (fun <= target and mcv <= tol):
            out.append(V("status1-unmet", f"status 1 but fun={fun}, target={target}, maxcv={mcv}, tol={tol}"))
    elif st == 2:
        if not all_fixed(case):
            out.append(V("status2-not-fixed", "status 2 although not every variable is fixed"))
    elif st == 3:
        cbs = [c for c in rec.calls if c["fid"] == "cb"]
        if not cbs or not _cb_stopped(rec, cbs[-1]):
            out.append(V("status3-no-stop", "status 3 but the callback did not raise StopIteration at its last call"))
    elif st == 4:
        if case["obj"]["kind"] != "none" or not (mcv <= tol):
            out.append(V("status4-unmet", f"status 4 with objective={case['obj']['kind']} maxcv={mcv}"))
    elif st == 5:
        maxfev = opts.get("maxfev", rec.build["options"].get("maxfev") if rec.build else None)
        if maxfev is None or int(res.nfev) != int(maxfev) or nev != int(maxfev):
            out.append(V("status5-nfev", f"status 5 with nfev={res.nfev} ({nev} evaluations), maxfev={maxfev}"))
    elif st == 6:
        maxiter = opts.get("maxiter", rec.build["options"].get("maxiter") if rec.build else None)
        if maxiter is None or int(res.nit) != int(maxiter):
            out.append(V("status6-nit", f"status 6 with nit={res.nit}, maxiter={maxiter}"))
    elif st == -1:
        if consistent(case):
            out.append(V("status-1-consistent", "status -1 although the bounds are consistent"))
    if bool(res.success):
        if st not in (0, 1, 2, 3, 4):
            out.append(V("success-bad-status", f"success with status {st}"))
        if not (math.isfinite(fun) and math.isfinite(mcv)):
            out.append(V("success-nonfinite", f"success with fun={fun} maxcv={mcv}"))
        elif not (mcv <= tol):
            out.append(V("success-infeasible", f"success with maxcv={mcv} > feasibility_tol={tol} (status {st})"))
    return out


def _cb_stopped(rec, c):
    spec = rec.case.get("callback") or {}
    return c["alt"] == "stop" or (spec.get("behav") == "stop" and c["k"] == spec.get("k"))


# --------------------------------------------------------------------------
# C08
# --------------------------------------------------------------------------
FIELDS = {"message": str, "success": (bool, np.bool_), "status": (int, np.integer),
          "x": np.ndarray, "fun": (float, np.floating), "maxcv": (float, np.floating),
          "nfev": (int, np.integer), "nit": (int, np.integer)}


def c08(rec, table=None):
    out = []
    if rec.exc is not None:
        name, msg, site = rec.exc
        out.append(V(f"exception:{name}@{site}", f"minimize raised {name}: {msg} (from {site})"))
        return out
    res = rec.res
    from scipy.optimize import OptimizeResult

    if not isinstance(res, OptimizeResult):
        return [V("not-optimizeresult", f"minimize returned {type(res).__name__}")]
    for name, typ in FIELDS.items():
        if name not in res:
            out.append(V(f"field-missing:{name}", f"result has no field {name}"))
        elif not isinstance(res[name], typ):
            out.append(V(f"field-type:{name}", f"field {name} has type {type(res[name]).__name__}"))
    if out:
        return out
    if np.asarray(res.x).shape != (rec.case["n"],):
        out.append(V("x-shape", f"x has shape {np.asarray(res.x).shape}"))
    barrier = float(cobyqa.settings.BARRIER) if hasattr(cobyqa, "settings") else 2.0 ** 100
    for p in rec.pcalls:
        if p["ret"] is None:
            continue
        f, cub, ceq = p["ret"]
        vals = np.concatenate([[f], cub, ceq])
        if not np.all(np.isfinite(vals)) or np.any(np.abs(vals) > barrier):
            out.append(V("nonfinite-into-models",
                         f"evaluation {p['idx'] + 1} handed a non-finite or beyond-barrier value to the solver"))
            break
    if (float(res.fun) != float(res.fun) or float(res.maxcv) != float(res.maxcv)) and bool(res.success):
        out.append(V("nan-success", f"success=True with fun={res.fun} maxcv={res.maxcv}"))
    # ... also when the code itself reports a finite value: judged on the true values logged by the harness
    if bool(res.success):
        table = table or eval_table(rec)
        xr = np.asarray(res.x, float)
        rows = [r for r in table if r["x"] is not None and r["complete"] and e1.same_bits(r["x"], xr)]
        if rows and all((r["v"] is not None and r["v"] != r["v"]) or (r["f"] != r["f"]) for r in rows):
            out.append(V("nan-success:true-values",
                         f"success=True although the objective or the violation at the returned point is NaN "
                         f"(reported fun={res.fun}, maxcv={res.maxcv})"))
    for m in rec.notes.get("models", []):
        if not math.isfinite(m["res"]):
            out.append(V("models-nonfinite", "a model takes a non-finite value at an interpolation point"))
            break
    return out


# --------------------------------------------------------------------------
# C09
# --------------------------------------------------------------------------
def c09(rec, table=None):
    res = rec.res
    if res is None:
        return []
    out = []
    case = rec.case
    table = table or eval_table(rec)
    opts = case.get("options", {})
    tol = feas_tol(case)
    target = opts.get("target")
    target = float(target) if target is not None and float(target) > -INF else None  # +inf is a (trivial) target
    feas_pb = case["obj"]["kind"] == "none"
    first = None
    ambiguous = False
    last_req = set()
    for k, r in enumerate(table, start=1):
        req = set()
        if r["p"]["kind"] == "result":
            # the single evaluation made while the result of an early exit (infeasible or all-fixed bounds) is
            # assembled is not an iteration that could be stopped
            if k == len(table):
                last_req = req
            continue
        if r["complete"] and r["v"] is not None:
            v = r["v"]
            slack = r["vtol"] + 4 * EPS * abs(v if v == v else 0.0)
            defin = (v == v) and v <= tol - slack
            maybe = (v == v) and v <= tol + slack
            f = r["f"]
            if target is not None and f == f and f <= target:
                if defin:
                    req.add(1)
                elif maybe:
                    ambiguous = True
            if feas_pb:
                if defin:
                    req.add(4)
                elif maybe:
                    ambiguous = True
        if any(_cb_stopped(rec, c) for c in r["cb"]):
            req.add(3)
        if k == len(table):
            last_req = req
        if req and first is None:
            first = (k, req, r)
    if ambiguous:
        rec.notes["c09_ambiguous"] = True
        return out
    st = int(res.status)
    if first is not None:
        k, req, r = first
        after = rec.calls[r["p"]["c1"]:]
        if k < len(table) or after:
            out.append(V(f"ran-on-after-stop:{min(req)}:{r['p']['kind']}",
                         f"evaluation {k} ({r['p']['kind']}) satisfied stopping request(s) {sorted(req)} "
                         f"but {len(table) - k} more evaluation(s) were performed"))
        else:
            if st not in req:
                out.append(V(f"stop-status-wrong:{min(req)}:{r['p']['kind']}",
                             f"evaluation {k} satisfied request(s) {sorted(req)} but status is {st}"))
            if int(res.nfev) != k:
                out.append(V("stop-nfev-wrong", f"run stopped at evaluation {k} but nfev={res.nfev}"))
            # the point returned satisfies the request that ended the run
            if st == 1 and not (float(res.fun) <= target and float(res.maxcv) <= tol):
                out.append(V("stop-point-unsatisfying:1", f"status 1 returned fun={res.fun} maxcv={res.maxcv}"))
            if st == 4 and not (float(res.maxcv) <= tol):
                out.append(V("stop-point-unsatisfying:4", f"status 4 returned maxcv={res.maxcv}"))
    if st in (1, 3, 4) and table and st not in last_req:
        # statuses 1/4 may also be issued by an early exit without evaluation rows
        out.append(V(f"stop-status-without-event:{st}",
                     f"status {st} reported but the corresponding event did not occur at the last evaluation"))
    return out


# --------------------------------------------------------------------------
# C01
# --------------------------------------------------------------------------
def c01(rec, table=None):
    case = rec.case
    if not consistent(case):
        return []
    out = []
    lb, ub = user_box(case)
    n = case["n"]
    fixed = lb == ub
    # (a) user space, exact
    for c in rec.calls:
        x = c["x"]
        if x.shape != (n,):
            continue  # C06's business
        if np.any(x < lb) or np.any(x > ub) or np.any(x[fixed] != lb[fixed]) or np.any(x != x):
            who = "callback" if c["fid"] == "cb" else ("objective" if c["fid"] == "obj" else "constraint")
            out.append(V(f"user-point-outside:{who}",
                         f"{who} received {x.tolist()} outside [{lb.tolist()}, {ub.tolist()}]"))
            break
    if rec.res is not None:
        x = np.asarray(rec.res.x, float)
        if x.shape == (n,) and (np.any(x < lb) or np.any(x > ub) or np.any(x[fixed] != lb[fixed])):
            out.append(V("result-outside", f"returned x={x.tolist()} violates the bounds"))
    # (b) by construction: the solver's own trial points are inside its box
    pb = rec.pb
    if pb is not None:
        xl = np.asarray(pb.bounds.xl, float)
        xu = np.asarray(pb.bounds.xu, float)
        # "up to floating-point rounding": a trial point is x_best + step, where x_best is an earlier trial point
        # and the step is limited by xl - x_best and xu - x_best; the rounding of these operations is relative to
        # the magnitude of x_best (an unbounded objective drives the iterates to 1e18 and beyond), so the slack
        # follows the largest magnitude seen so far in each coordinate
        mag = np.zeros(xl.shape)
        mags = {}
        for p in rec.pcalls:
            x = p["x"]
            if x.shape != xl.shape:
                continue
            mag = np.maximum(mag, np.where(np.isfinite(x), np.abs(x), 0.0))
            mags[p["idx"]] = mag
            slack = 10 * EPS * max(x.size, 1) * np.maximum(
                1.0, np.maximum(mag, np.maximum(np.where(np.isfinite(xl), np.abs(xl), 0.0),
                                                np.where(np.isfinite(xu), np.abs(xu), 0.0))))
            with np.errstate(over="ignore"):
                exc = float(max(np.max(xl - x - slack, initial=-INF), np.max(x - xu - slack, initial=-INF)))
            if exc > 0:
                over = float(max(np.max(xl - x, initial=0.0), np.max(x - xu, initial=0.0)))
                out.append(V(f"trial-point-outside:{p['kind']}",
                             f"{p['kind']} trial point (evaluation {p['idx'] + 1}) lies outside the solver's "
                             f"box by {over:.3g} and was silently projected"))
                break
        # the user-space point is the affine image of the trial point
        sf = getattr(pb, "_scaling_factor", None)
        sh = getattr(pb, "_scaling_shift", None)
        fi = getattr(pb, "_fixed_idx", None)
        if sf is not None and fi is not None:
            for p, calls in e1.eval_groups(rec):
                ux = None
                for c in calls:
                    if c["fid"] != "cb" and c["xshape"] == (n,):
                        ux = c["x"]
                        break
                if ux is None or p["x"].shape != sf.shape:
                    continue
                with np.errstate(all="ignore"):  # boxes of the largest finite numbers: the slack may overflow to inf
                    img = p["x"] * sf + sh
                    got = ux[~fi]
                    slack = 10 * EPS * max(n, 1) * np.maximum(1.0, np.abs(img) + np.abs(sh)
                                                              + mags.get(p["idx"], 0.0) * np.abs(sf))
                    bad = bool(np.any(np.abs(img - got) > slack))
                if bad:
                    out.append(V(f"measured-elsewhere:{p['kind']}",
                                 f"{p['kind']} trial point (evaluation {p['idx'] + 1}) was evaluated at a point "
                                 f"{float(np.max(np.abs(img - got))):.3g} away from where the solver believes"))
                    break
    # (c) interpolation points stay in the box
    for i, t in enumerate(rec.tr):
        # 1e-12 relative to the magnitude of the points and bounds (O(1) in most of the alphabet; up to 2^40 in
        # the scaled cross-feature cases) is far above rounding
        if t["pts_out"] > 1e-12 * t.get("pts_mag", 1.0):
            out.append(V("interp-point-outside",
                         f"an interpolation point lies outside the box by {t['pts_out']:.3g} at iteration {i + 1}"))
            break
    return out


# --------------------------------------------------------------------------
# C03 (end to end)
# --------------------------------------------------------------------------
def c03(rec, table=None):
    res = rec.res
    if res is None or rec.build is None:
        return []
    case = rec.case
    fs = case.get("options", {}).get("filter_size")
    table = table or eval_table(rec)
    rows = [r for r in table if r["complete"] and r["x"] is not None]
    if len(rows) != len(table) or not rows:
        return []
    hist = [(float(r["f"]), float(r["v"])) for r in rows]
    x = np.asarray(res.x, float)
    cands = [i for i, r in enumerate(rows) if e1.same_bits(r["x"], x) and e1.feq(r["f"], res.fun)]
    if not cands:
        return []  # C02's business
    tol = feas_tol(case)
    pen = rec.build["penalty"]
    if fs is not None:
        kept = refs.ref_retained(hist, int(fs))
        sub = [hist[i] for i in kept]
        cands = [kept.index(i) for i in cands if i in kept]
        if not cands:
            return [V("returned-not-retained", "the returned point is not among the retained filter points")]
        hist = sub
    # rounding of the linear part: values within vtol of tol are ambiguous
    slack = max((r["vtol"] for r in rows), default=0.0)
    if slack > 0 and any(abs(v - tol) <= slack + 4 * EPS * abs(v) for f, v in hist if v == v):
        return []
    reasons = [refs.best_acceptable(hist, i, tol, pen) for i in cands]
    if all(r is not None for r in reasons):
        # tolerate rounding in the linear part of v: compare again with v rounded to the code's own values
        return [V(f"not-best:{reasons[-1]}",
                  f"returned (fun={res.fun}, maxcv={res.maxcv}) is not the best evaluated point: {reasons[-1]} "
                  f"(penalty={pen}, {len(hist)} points)")]
    return []


# --------------------------------------------------------------------------
# C20 (single-run part)
# --------------------------------------------------------------------------
def c20(rec, table=None):
    case = rec.case
    spec = case.get("callback")
    if spec is None:
        return []
    out = []
    table = table or eval_table(rec)
    n = case["n"]
    lb, ub = user_box(case)
    fixed = lb == ub
    want = e1.cb_convention(spec.get("sig", "xk"))
    for k, r in enumerate(table, start=1):
        cbs = r["cb"]
        if r["p"]["exc"] not in (None, "CallbackSuccess"):
            continue
        if len(cbs) != 1:
            out.append(V("callback-count", f"{len(cbs)} callback invocations for evaluation {k}"))
            break
        c = cbs[0]
        pos = r["calls"].index(c)
        if pos != len(r["calls"]) - 1:
            out.append(V("callback-before-functions", f"callback invoked before the functions of evaluation {k}"))
            break
        if c["conv"] != want:
            out.append(V(f"callback-convention:{spec.get('sig')}",
                         f"callback with signature kind {spec.get('sig')} invoked with convention {c['conv']}"))
            break
        x = c["x"]
        if x.shape != (n,):
            out.append(V("callback-point-shape", f"callback received a point of shape {x.shape}"))
            break
        if consistent(case) and (np.any(x < lb) or np.any(x > ub) or np.any(x[fixed] != lb[fixed])):
            out.append(V("callback-point-outside", f"callback received {x.tolist()} outside the bounds"))
            break
        if want == "ir":
            # fun must be the objective value at that point
            match = [q for q in table[:k] if q["x"] is not None and e1.same_bits(q["x"], x)
                     and q["f"] is not None and e1.feq(q["f"], c["val"])]
            if c["val"] is None or not match:
                out.append(V("callback-fun-wrong", f"callback received fun={c['val']!r}, not the objective "
                                                    f"value at the point it was given"))
                break
        else:
            if not any(q["x"] is not None and e1.same_bits(q["x"], x) for q in table[:k]):
                out.append(V("callback-point-not-evaluated",
                             f"callback {k} received a point that was never evaluated"))
                break
    outside = [c for c in rec.calls if c["fid"] == "cb" and c["pcall"] is None]
    if outside:
        out.append(V("callback-outside-eval", "callback invoked outside an evaluation"))
    return out


ORACLES = {"C01": c01, "C02": c02, "C03": c03, "C05": c05, "C07": c07, "C08": c08,
           "C09": c09, "C20": c20}
