"""Engine E4 (sched): preemption-bounded interleaving of real threads.

CHESS-style: every body runs in a real ``threading.Thread`` under a
cooperative baton (one semaphore per thread, one for the controller).  A
thread runs until its next *scheduling point*, where it hands the baton
back to the controller, which decides who continues.  Canonical order:
the running thread first if still enabled, then ascending ids; switching
away from a runnable thread costs one preemption.

Scheduling points
  S1  entry and exit of every user function (explicit calls from the harness closures)
  S2  every line of cobyqa functions flagged by an AST scan of the working tree
      (``global``/``nonlocal``; stores or mutating method calls on a parameter other than
      self/cls or on a module-level name)
  S3  entry of any cobyqa function one of whose arguments is a registered shared user object
"""
import ast
import os
import sys
import threading
import time

import numpy as np

from . import common

cobyqa = common.bind_repo()
PKG_DIR = cobyqa.__path__[0]
MUTATORS = {"append", "extend", "pop", "update", "setdefault", "clear", "insert", "remove", "add", "discard",
            "sort", "popitem", "fill", "resize", "put", "itemset", "sort", "reverse"}


# --------------------------------------------------------------------------
# focus set (S2) from an AST scan of the working tree
# --------------------------------------------------------------------------
def scan_focus():
    """Returns {(filename, first line of function): qualname} of flagged functions."""
    flagged = {}
    details = {}
    for root, _, files in os.walk(PKG_DIR):
        if "/tests" in root:
            continue
        for fn in files:
            if not fn.endswith(".py"):
                continue
            path = os.path.join(root, fn)
            tree = ast.parse(open(path).read())
            modnames = set()
            for node in tree.body:
                if isinstance(node, (ast.Assign, ast.AugAssign, ast.AnnAssign)):
                    targets = node.targets if isinstance(node, ast.Assign) else [node.target]
                    for t in targets:
                        for n in ast.walk(t):
                            if isinstance(n, ast.Name):
                                modnames.add(n.id)

            def visit(fnode, qual):
                params = {a.arg for a in fnode.args.args + fnode.args.kwonlyargs + fnode.args.posonlyargs}
                if fnode.args.vararg:
                    params.add(fnode.args.vararg.arg)
                if fnode.args.kwarg:
                    params.add(fnode.args.kwarg.arg)
                params -= {"self", "cls"}
                local_assigned = set()
                for n in ast.walk(fnode):
                    if isinstance(n, ast.Assign):
                        for t in n.targets:
                            if isinstance(t, ast.Name):
                                local_assigned.add(t.id)
                reasons = []

                def base_name(t):
                    while isinstance(t, (ast.Attribute, ast.Subscript)):
                        t = t.value
                    return t.id if isinstance(t, ast.Name) else None

                for n in ast.walk(fnode):
                    if isinstance(n, (ast.Global, ast.Nonlocal)):
                        reasons.append("global/nonlocal")
                    targets = []
                    if isinstance(n, ast.Assign):
                        targets = n.targets
                    elif isinstance(n, (ast.AugAssign, ast.AnnAssign)):
                        targets = [n.target]
                    elif isinstance(n, ast.Delete):
                        targets = n.targets
                    for t in targets:
                        if isinstance(t, (ast.Attribute, ast.Subscript)):
                            b = base_name(t)
                            if b in params and b not in local_assigned:
                                reasons.append(f"store through parameter {b}")
                            elif b in modnames and b not in local_assigned and b not in params:
                                reasons.append(f"store through module-level {b}")
                        elif isinstance(t, ast.Name) and isinstance(n, ast.AugAssign) and t.id in modnames \
                                and t.id not in local_assigned and t.id not in params:
                            reasons.append(f"augmented store to module-level {t.id}")
                    if isinstance(n, ast.Call) and isinstance(n.func, ast.Attribute) and n.func.attr in MUTATORS:
                        b = base_name(n.func.value)
                        if b in params and b not in local_assigned:
                            reasons.append(f"mutating call on parameter {b}")
                        elif b in modnames and b not in local_assigned and b not in params:
                            reasons.append(f"mutating call on module-level {b}")
                if reasons:
                    flagged[(path, fnode.lineno)] = qual
                    for d in fnode.decorator_list:
                        flagged[(path, d.lineno)] = qual
                    details[qual] = sorted(set(reasons))

            def walk(node, prefix):
                for ch in ast.iter_child_nodes(node):
                    if isinstance(ch, (ast.FunctionDef, ast.AsyncFunctionDef)):
                        q = prefix + ch.name
                        visit(ch, os.path.relpath(path, PKG_DIR) + ":" + q)
                        walk(ch, q + ".")
                    elif isinstance(ch, ast.ClassDef):
                        walk(ch, prefix + ch.name + ".")
                    else:
                        walk(ch, prefix)

            walk(tree, "")
    return flagged, details


# --------------------------------------------------------------------------
# scheduler
# --------------------------------------------------------------------------
class Deadlock(Exception):
    pass


class Scheduler:
    def __init__(self, bodies, decisions, focus, shared_ids, horizon=20000, step_timeout=20.0,
                 s2=True, s3=True):
        self.bodies = bodies
        self.n = len(bodies)
        self.decisions = dict(decisions)  # step -> tid to run next
        self.focus = focus
        self.shared_ids = shared_ids
        self.horizon = horizon
        self.step_timeout = step_timeout
        self.s2 = s2
        self.s3 = s3
        self.sem = [threading.Semaphore(0) for _ in bodies]
        self.ctl = threading.Semaphore(0)
        self.done = [False] * self.n
        self.started = [False] * self.n
        self.results = [None] * self.n
        self.errors = [None] * self.n
        self.trace = []  # (step, running tid, enabled tuple, label)
        self.labels = []
        self.current = None
        self.tls = threading.local()
        self.abort = False
        self.last_label = [None] * self.n

    # ---- called from body threads
    def point(self, label):
        tid = getattr(self.tls, "tid", None)
        if tid is None:
            return
        if self.abort:
            raise SystemExit
        self.last_label[tid] = label
        self.ctl.release()
        if not self.sem[tid].acquire(timeout=self.step_timeout * 50) or self.abort:
            raise SystemExit  # controller is gone or the execution was abandoned

    def _tracer(self, frame, event, arg):
        # global trace function: decide per call whether to trace lines
        if event != "call":
            return None
        code = frame.f_code
        fn = code.co_filename
        if not fn.startswith(PKG_DIR):
            return None
        if self.s3 and self.shared_ids:
            for v in frame.f_locals.values():
                if id(v) in self.shared_ids:
                    self.point(("S3", code.co_name))
                    break
        if self.s2 and (fn, code.co_firstlineno) in self.focus:
            return self._line_tracer
        return None

    def _line_tracer(self, frame, event, arg):
        if event == "line":
            self.point(("S2", frame.f_code.co_name, frame.f_lineno))
        return self._line_tracer

    def _run_body(self, tid):
        self.tls.tid = tid
        self.sem[tid].acquire()
        sys.settrace(self._tracer)
        try:
            self.results[tid] = self.bodies[tid](self, tid)
        except SystemExit:
            pass
        except BaseException as e:  # noqa
            import traceback
            self.errors[tid] = (type(e).__name__, str(e)[:200], traceback.format_exc(limit=6)[-600:])
        finally:
            sys.settrace(None)
            self.done[tid] = True
            self.tls.tid = None
            self.ctl.release()

    # ---- controller
    def run(self):
        threads = [threading.Thread(target=self._run_body, args=(i,), daemon=True) for i in range(self.n)]
        for t in threads:
            t.start()
        step = 0
        cur = None
        preempt = 0
        try:
            while not all(self.done):
                enabled = [i for i in range(self.n) if not self.done[i]]
                # canonical default: keep running the current thread, else the lowest id
                default = cur if (cur is not None and not self.done[cur]) else enabled[0]
                choice = self.decisions.get(step, default)
                if choice not in enabled:
                    raise common.HarnessError(f"schedule decision {choice} at step {step} is not enabled {enabled}")
                if cur is not None and not self.done[cur] and choice != cur:
                    preempt += 1
                self.trace.append((step, cur, tuple(enabled), choice,
                                   None if cur is None else self.last_label[cur]))
                cur = choice
                self.sem[cur].release()
                if not self.ctl.acquire(timeout=self.step_timeout):
                    raise Deadlock(f"no progress at step {step} (thread {cur})")
                step += 1
                if step > self.horizon:
                    raise Deadlock(f"horizon of {self.horizon} scheduling points exceeded")
        finally:
            self.abort = True
            for i in range(self.n):
                self.sem[i].release()
        self.steps = step
        self.preemptions = preempt
        return self


def explore(make_bodies, bound, focus, s2=True, s3=True, prefix_filter=None,
            max_execs=None, first_threads=None, root_range=None):
    """Preemption-bounded DFS.  ``make_bodies()`` returns (bodies, shared_ids) afresh for every
    execution.  Yields (decisions, scheduler, verdicts)."""
    bodies0, _ = make_bodies()
    n = len(bodies0)
    stack = []
    for first in (first_threads if first_threads is not None else range(n)):
        stack.append(({0: first} if first != 0 else {}, 0, 0))
    count = 0
    while stack:
        decisions, start, used = stack.pop()
        bodies, shared = make_bodies()
        sch = Scheduler(bodies, decisions, focus, shared, s2=s2, s3=s3)
        err = None
        try:
            sch.run()
        except Deadlock as e:
            err = str(e)
        count += 1
        yield decisions, sch, err
        if err is not None or used >= bound:
            continue
        if max_execs and count >= max_execs:
            return
        for (step, cur, enabled, choice, label) in sch.trace:
            if step < start or step == 0:
                continue
            if used == 0 and root_range is not None and not (root_range[0] <= step < root_range[1]):
                continue
            if cur is None or cur not in enabled:
                continue  # forced switch: no preemption possible here
            if prefix_filter is not None and not prefix_filter(label):
                continue
            for alt in enabled:
                if alt != choice:
                    d = dict(decisions)
                    d[step] = alt
                    stack.append((d, step + 1, used + 1))
