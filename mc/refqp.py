"""ref_qp: exact minimisers of strictly convex quadratic programs by
active-set enumeration, in rational arithmetic (fractions.Fraction)."""
import itertools
from fractions import Fraction as Fr


def solve(A, b):
    """Gaussian elimination with exact pivoting; returns None if singular."""
    n = len(A)
    M = [list(map(Fr, row)) + [Fr(bi)] for row, bi in zip(A, b)]
    for c in range(n):
        p = None
        for r in range(c, n):
            if M[r][c] != 0:
                p = r
                break
        if p is None:
            return None
        M[c], M[p] = M[p], M[c]
        piv = M[c][c]
        M[c] = [v / piv for v in M[c]]
        for r in range(n):
            if r != c and M[r][c] != 0:
                f = M[r][c]
                M[r] = [a - f * bb for a, bb in zip(M[r], M[c])]
    return [M[i][n] for i in range(n)]


def det(A):
    n = len(A)
    M = [list(map(Fr, row)) for row in A]
    d = Fr(1)
    for c in range(n):
        p = None
        for r in range(c, n):
            if M[r][c] != 0:
                p = r
                break
        if p is None:
            return Fr(0)
        if p != c:
            M[c], M[p] = M[p], M[c]
            d = -d
        d *= M[c][c]
        for r in range(c + 1, n):
            if M[r][c] != 0:
                f = M[r][c] / M[c][c]
                M[r] = [a - f * bb for a, bb in zip(M[r], M[c])]
    return d


def qp(Q, c, lb=None, ub=None, Aeq=None, beq=None, Aub=None, bub=None):
    """min 1/2 (x-c)'Q(x-c)  s.t. lb<=x<=ub, Aeq x = beq, Aub x <= bub.  Q positive definite.
    Returns the unique minimiser as a list of Fractions (None if infeasible)."""
    n = len(c)
    Q = [[Fr(v) for v in row] for row in Q]
    c = [Fr(v) for v in c]
    ineq = []  # rows a.x <= h
    for i in range(n):
        if lb is not None and lb[i] is not None:
            ineq.append(([Fr(-1) if j == i else Fr(0) for j in range(n)], -Fr(lb[i])))
        if ub is not None and ub[i] is not None:
            ineq.append(([Fr(1) if j == i else Fr(0) for j in range(n)], Fr(ub[i])))
    for row, h in zip(Aub or [], bub or []):
        ineq.append(([Fr(v) for v in row], Fr(h)))
    eqs = [([Fr(v) for v in row], Fr(h)) for row, h in zip(Aeq or [], beq or [])]
    g0 = [sum(Q[i][j] * c[j] for j in range(n)) for i in range(n)]  # Qc
    best = None
    for k in range(0, min(len(ineq), n) + 1):
        for act in itertools.combinations(range(len(ineq)), k):
            rows = eqs + [ineq[i] for i in act]
            m = len(rows)
            if m > n:
                continue
            K = [[Fr(0)] * (n + m) for _ in range(n + m)]
            rhs = [Fr(0)] * (n + m)
            for i in range(n):
                for j in range(n):
                    K[i][j] = Q[i][j]
                rhs[i] = g0[i]
            for r, (a, h) in enumerate(rows):
                for j in range(n):
                    K[n + r][j] = a[j]
                    K[j][n + r] = a[j]
                rhs[n + r] = h
            sol = solve(K, rhs)
            if sol is None:
                continue
            x = sol[:n]
            lam = sol[n:]
            if any(lam[len(eqs) + t] < 0 for t in range(len(act))):
                continue
            if any(sum(a[j] * x[j] for j in range(n)) > h for a, h in ineq):
                continue
            val = sum((x[i] - c[i]) * Q[i][j] * (x[j] - c[j]) for i in range(n) for j in range(n))
            if best is None or val < best[0]:
                best = (val, x)
    return None if best is None else best[1]
