"""Deviation-bounded stateless exploration on top of engine E1."""
from . import e1

OBJ_MENU = ["nan", "pinf", "ninf", "huge"]
CON_MENU = ["nan", "pinf", "ninf", "huge"]


def default_menu(ent, case):
    fid = ent["fid"]
    if fid == "obj":
        return list(OBJ_MENU)
    if fid.startswith("con"):
        ncomp = len(ent["val"])
        return [[name, i] for i in range(ncomp) for name in CON_MENU]
    if fid == "cb":
        return ["stop"]
    return []


def explore(case, bound, menu=default_menu, horizon=None, timeout=60.0):
    """Yield the Recorder of every execution with at most ``bound``
    deviations from the truthful environment.  Deviation positions are
    strictly increasing in call order, so no execution is produced twice."""
    stack = [([], 0)]
    while stack:
        dev, start = stack.pop()
        c = dict(case)
        c["dev"] = list(case.get("dev", [])) + dev
        rec = e1.run(c, timeout=timeout)
        rec.ndev = len(dev)
        yield rec
        if len(dev) >= bound:
            continue
        for pos in range(len(rec.points) - 1, start - 1, -1):
            ent = rec.points[pos]
            if ent["alt"] is not None:
                continue
            if horizon is not None and not horizon(rec, pos, ent, len(dev)):
                continue
            for alt in menu(ent, case):
                stack.append((dev + [[ent["fid"], ent["k"], alt]], pos + 1))
