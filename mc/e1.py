"""Engine E1 (envx): stateless exploration of the real ``minimize`` under a
harness-owned environment.

A *case* is pure JSON data and fully determines one execution:

    {"n": 2,
     "obj": {"kind": "quad", "a": [...], "c": [...], "nan": {...}?} | {"kind": "none"},
     "x0": [...],
     "bounds": null | {"form": "Bounds"|"array", "lb": [...], "ub": [...]},
     "cons": [ {"kind": "lin", "A": [[..]], "lb": [...], "ub": [...]},
               {"kind": "nl", "form": "nlc"|"dict_ineq"|"dict_eq",
                "funs": [ {"kind": "ball", ...}, ...], "lb": [...], "ub": [...],
                "scalar": bool} ],
     "options": {...}, "constants": {...},
     "callback": null | {"sig": "xk"|"ir"|..., "behav": "passive"|"stop"|"nanwrite", "k": 3},
     "dev": [ [fid, k, alt], ... ]          # deviations: k-th call of function fid answers `alt`
    }

The user functions and the callback are the environment; every one of their
returns is a choice point owned by the Recorder.  Choice 0 (absent from
``dev``) is the truthful answer.
"""
import functools
import io
import sys
import warnings
from contextlib import redirect_stdout

import numpy as np

from . import common

cobyqa = common.bind_repo()
import cobyqa.main as cmain  # noqa: E402
import cobyqa.problem as cproblem  # noqa: E402
import cobyqa.framework as cframework  # noqa: E402
import cobyqa.models as cmodels  # noqa: E402
from scipy.optimize import Bounds, LinearConstraint, NonlinearConstraint  # noqa: E402

INF = float("inf")
NAN = float("nan")
PKG_DIR = cobyqa.__path__[0]


# --------------------------------------------------------------------------
# Function library (pure functions of (params, x))
# --------------------------------------------------------------------------
def _in_nan_region(reg, x):
    if reg is None:
        return False
    t = reg["type"]
    if t == "halfspace":  # x[i] > t (side=+1) or x[i] < t (side=-1)
        v = x[reg["i"]]
        return v > reg["t"] if reg.get("side", 1) > 0 else v < reg["t"]
    if t == "outball":
        return float(np.sum((x - np.array(reg["c"])) ** 2)) > reg["r2"]
    if t == "inball":
        return float(np.sum((x - np.array(reg["c"])) ** 2)) < reg["r2"]
    raise common.HarnessError("unknown region " + t)


def eval_scalar(spec, x):
    """Value of a function of the alphabet.  Optional keys ``xs`` (the function is stated in the variables x/xs),
    ``mul`` and ``add`` (the value is multiplied by mul, then add is added) give exactly scaled copies of a problem
    when they are powers of two."""
    if "xs" in spec:
        x = x / float(spec["xs"])
    v = _eval_core(spec, x)
    if "mul" in spec:
        v = v * float(spec["mul"])
    if "add" in spec:
        v = v + float(spec["add"])
    return v


def _eval_core(spec, x):
    k = spec["kind"]
    if _in_nan_region(spec.get("nan"), x):
        return NAN
    if k == "quad":
        a = np.array(spec["a"], float)
        c = np.array(spec["c"], float)
        return float(np.sum(a * (x - c) ** 2))
    if k == "lin":
        return float(np.array(spec["g"], float) @ x + spec.get("b", 0.0))
    if k == "abs":
        return float(np.sum(np.abs(x - np.array(spec["c"], float))))
    if k == "zero":
        return 0.0
    if k == "const":
        return float(spec["v"])
    if k == "ball":  # sum((x-c)^2) - r2
        c = np.array(spec["c"], float)
        return float(np.sum((x - c) ** 2) - spec["r2"])
    if k == "aff":
        return float(np.array(spec["a"], float) @ x - spec["b"])
    if k == "cubic":
        c = np.array(spec["c"], float)
        return float(np.sum((x - c) ** 3 + (x - c) ** 2))
    if k == "noisy":  # deterministic high-frequency perturbation of a quadratic ("noisy" objective)
        a = np.array(spec["a"], float)
        c = np.array(spec["c"], float)
        return float(np.sum(a * (x - c) ** 2) + 0.015625 * np.sin(1024.0 * float(np.sum(x))))
    if k == "rosen":
        return float(np.sum(100.0 * (x[1:] - x[:-1] ** 2) ** 2
                            + (1.0 - x[:-1]) ** 2))
    if k == "prod":
        return float(np.prod(x) - spec.get("b", 0.0))
    raise common.HarnessError("unknown function kind " + k)


DEV_VALUES = {
    "nan": NAN,
    "pinf": INF,
    "ninf": -INF,
    "huge": 1e200,
    "nhuge": -1e200,
}


# --------------------------------------------------------------------------
# Recorder: owns the environment's answers and all logs of one execution
# --------------------------------------------------------------------------
class Rec:
    def __init__(self, case):
        self.case = case
        self.dev = {}
        for fid, k, alt in case.get("dev", []):
            self.dev[(fid, int(k))] = alt
        self.counts = {}
        self.calls = []  # user-space log
        self.points = []  # every choice point in order (user calls + scripted back-end answers of engine E3)
        self.pcalls = []  # Problem.__call__ log
        self.open_pcall = None
        self.phase = "pre"
        self.step_kind = None
        self.tr = []  # trust-region monitor
        self.build = None  # _build_result arguments
        self.notes = {}
        self.stdout = ""
        self.warnings = []
        self.res = None
        self.exc = None
        self.pb = None
        self.framework = None
        self.used_dev = set()
        self.monitors = set(case.get("monitors", []))
        self.hook = None  # optional callable(rec, event, payload)
        self.spy_errors = []  # failures of the harness' own bookkeeping (never of the code under test)

    def tick(self, fid):
        k = self.counts.get(fid, 0) + 1
        self.counts[fid] = k
        return k


CUR = None  # the recorder of the execution in progress (one per process)


def _site():
    """Innermost cobyqa frame on the stack of a user-function call."""
    f = sys._getframe(2)
    while f is not None:
        fn = f.f_code.co_filename
        if fn.startswith(PKG_DIR) and "/tests/" not in fn:
            return fn[len(PKG_DIR) + 1:] + ":" + f.f_code.co_qualname
        f = f.f_back
    return "?"


def _log_call(rec, fid, k, x, val, alt):
    ent = {
        "fid": fid,
        "k": k,
        "x": np.array(x, dtype=float, copy=True),
        "val": val,
        "alt": alt,
        "pcall": rec.open_pcall,
        "site": _site(),
        "xshape": tuple(np.shape(x)),
    }
    rec.calls.append(ent)
    rec.points.append(ent)
    if rec.hook is not None:
        rec.hook(rec, "user", ent)
    return ent


def xmap(case, x):
    """Hand-made restatements (C10): the functions are stated on a mapped point."""
    m = case.get("xmap")
    if m is None:
        return x
    return _xmap1(m, x)


def _xmap1(m, x):
    if m["kind"] == "chain":
        for mm in m["maps"]:
            x = _xmap1(mm, x)
        return x
    if m["kind"] == "embed":
        full = np.empty(m["n_full"])
        fixed = {int(k): v for k, v in m["fixed"].items()}
        free = [i for i in range(m["n_full"]) if i not in fixed]
        for i, v in fixed.items():
            full[i] = v
        full[free] = x
        return full
    if m["kind"] == "affine":
        y = x * np.array(m["s"], float) + np.array(m["m"], float)
        return np.clip(y, np.array(m["lb"], float), np.array(m["ub"], float))
    raise common.HarnessError("unknown xmap")


def make_objective(rec, spec, target=None):
    def fun(x, *args):
        k = rec.tick("obj")
        xx = np.array(x, dtype=float, copy=True)
        alt = rec.dev.get(("obj", k))
        if alt is None:
            val = eval_scalar(spec, xmap(rec.case, xx)) if xx.shape == (rec.case["n"],) else NAN
        else:
            rec.used_dev.add(("obj", k))
            if alt == "target":
                val = float(rec.case["options"]["target"]) - 1.0
            elif alt == "target_eq":
                val = float(rec.case["options"]["target"])
            elif alt in DEV_VALUES:
                val = DEV_VALUES[alt]
            else:
                raise common.HarnessError("bad objective alternative " + str(alt))
        _log_call(rec, "obj", k, x, val, alt)
        if rec.case.get("scribble") and isinstance(x, np.ndarray) and x.flags.writeable:
            x[...] = NAN  # a user function may use its argument as scratch space
        if rec.case.get("args_probe"):
            rec.notes.setdefault("args", []).append(args)
        return val

    fun.__name__ = "objective"
    return fun


def make_constraint(rec, j, con):
    fid = f"con{j}"
    specs = con["funs"]
    scalar = con.get("scalar", False)
    lb = np.atleast_1d(np.array(con.get("lb", [0.0]), float))
    ub = np.atleast_1d(np.array(con.get("ub", [0.0]), float))

    def cfun(x, *args):
        k = rec.tick(fid)
        xx = np.array(x, dtype=float, copy=True)
        if xx.shape == (rec.case["n"],):
            xm = xmap(rec.case, xx)
            shift = float(args[0]) if args else float(con.get("shift", 0.0))
            vals = [eval_scalar(s, xm) + shift for s in specs]
        else:
            vals = [NAN for _ in specs]
        alt = rec.dev.get((fid, k))
        if alt is not None:
            rec.used_dev.add((fid, k))
            name, comp = alt if isinstance(alt, (list, tuple)) else (alt, 0)
            if name == "feasible":
                for i in range(len(vals)):
                    vals[i] = _feasible_value(con, i)
            elif name in DEV_VALUES:
                vals[int(comp)] = DEV_VALUES[name]
            else:
                raise common.HarnessError("bad constraint alternative " + str(alt))
        val = np.array(vals, dtype=float)
        _log_call(rec, fid, k, x, val.copy(), alt)
        if rec.case.get("scribble") and isinstance(x, np.ndarray) and x.flags.writeable:
            x[...] = NAN
        if scalar and len(vals) == 1:
            return float(vals[0])
        return val

    cfun.__name__ = f"constraint{j}"
    return cfun


def _feasible_value(con, i):
    form = con.get("form", "nlc")
    if form == "dict_eq":
        return 0.0
    if form == "dict_ineq":
        return 1.0
    lb = np.broadcast_to(np.atleast_1d(np.array(con["lb"], float)),
                         (len(con["funs"]),))[i]
    ub = np.broadcast_to(np.atleast_1d(np.array(con["ub"], float)),
                         (len(con["funs"]),))[i]
    if np.isfinite(lb) and np.isfinite(ub):
        return 0.5 * (lb + ub)
    if np.isfinite(lb):
        return lb + 1.0
    if np.isfinite(ub):
        return ub - 1.0
    return 0.0


class _CallableObj:
    def __init__(self, f):
        self._f = f

    def __call__(self, xk):
        return self._f(xk)


class _CallableObjIR:
    def __init__(self, f):
        self._f = f

    def __call__(self, intermediate_result):
        return self._f(intermediate_result)


class _Holder:
    def __init__(self, f):
        self._f = f

    def meth_xk(self, xk):
        return self._f(xk)

    def meth_ir(self, intermediate_result):
        return self._f(intermediate_result)


def make_callback(rec, spec):
    """Build a callback of the requested signature kind around one body."""

    def body(arg):
        k = rec.tick("cb")
        if isinstance(arg, np.ndarray):
            conv = "xk"
            x = arg
            fun = None
        elif hasattr(arg, "x"):
            conv = "ir"
            x = arg.x
            fun = getattr(arg, "fun", None)
        else:
            conv = "?" + type(arg).__name__
            x = np.array([])
            fun = None
        alt = rec.dev.get(("cb", k))
        ent = _log_call(rec, "cb", k, x, fun, alt)
        ent["conv"] = conv
        ent["argid"] = id(x)
        behav = spec.get("behav", "passive")
        if behav == "nanwrite" and isinstance(x, np.ndarray) and x.flags.writeable:
            x[...] = NAN
        if behav == "keep":
            rec.notes.setdefault("kept", []).append(x)
        stop = (behav == "stop" and k == spec.get("k")) or alt == "stop"
        if alt is not None:
            rec.used_dev.add(("cb", k))
        if stop:
            raise StopIteration
        return None

    sig = spec.get("sig", "xk")
    if sig == "xk":
        def cb(xk):
            return body(xk)
        return cb
    if sig == "ir":
        def cb(intermediate_result):
            return body(intermediate_result)
        return cb
    if sig == "x_other":
        def cb(point):
            return body(point)
        return cb
    if sig == "lambda_xk":
        return lambda xk: body(xk)
    if sig == "lambda_ir":
        return lambda intermediate_result: body(intermediate_result)
    if sig == "obj_xk":
        return _CallableObj(body)
    if sig == "obj_ir":
        return _CallableObjIR(body)
    if sig == "meth_xk":
        return _Holder(body).meth_xk
    if sig == "meth_ir":
        return _Holder(body).meth_ir
    if sig == "partial_xk":
        def cb2(extra, xk):
            return body(xk)
        return functools.partial(cb2, 1)
    if sig == "partial_ir":
        def cb3(extra, intermediate_result):
            return body(intermediate_result)
        return functools.partial(cb3, 1)
    raise common.HarnessError("unknown callback signature " + sig)


def cb_convention(sig):
    return "ir" if sig.endswith("ir") else "xk"


def build(case, rec):
    """Turn a case into the arguments of ``minimize``."""
    n = case["n"]
    obj = case["obj"]
    fun = None if obj["kind"] == "none" else make_objective(rec, obj)
    x0 = np.array(case["x0"], dtype=float)
    b = case.get("bounds")
    if b is None:
        bounds = None
    else:
        lb = np.array(b["lb"], float)
        ub = np.array(b["ub"], float)
        if b.get("form", "Bounds") == "Bounds":
            bounds = Bounds(lb, ub)
        else:
            bounds = np.stack([lb, ub], axis=1)
    cons = []
    j = 0
    for con in case.get("cons", []):
        if con["kind"] == "lin":
            cons.append(LinearConstraint(np.array(con["A"], float),
                                         np.array(con["lb"], float),
                                         np.array(con["ub"], float)))
        else:
            f = make_constraint(rec, j, con)
            form = con.get("form", "nlc")
            if form == "nlc":
                lb = np.array(con["lb"], float)
                ub = np.array(con["ub"], float)
                if con.get("scalar_limits"):
                    lb = float(lb.ravel()[0])
                    ub = float(ub.ravel()[0])
                cons.append(NonlinearConstraint(f, lb, ub))
            elif form == "dict_ineq":
                cons.append(dict({"type": "ineq", "fun": f}, **({"args": tuple(con["args"])} if "args" in con else {})))
            elif form == "dict_eq":
                cons.append(dict({"type": "eq", "fun": f}, **({"args": tuple(con["args"])} if "args" in con else {})))
            else:
                raise common.HarnessError("unknown constraint form " + form)
            j += 1
    if case.get("cons_single") and len(cons) == 1:
        cons = cons[0]
    cbs = case.get("callback")
    callback = None if cbs is None else make_callback(rec, cbs)
    kwargs = dict(fun=fun, x0=x0, bounds=bounds, constraints=cons,
                  callback=callback, options=dict(case.get("options", {})))
    if "args" in case:
        kwargs["args"] = tuple(case["args"])
    kwargs.update(case.get("constants", {}))
    return kwargs


# --------------------------------------------------------------------------
# Monitors: transparent wrappers installed once per process
# --------------------------------------------------------------------------
_INSTALLED = False
_ORIG = {}


def _spy_failed(rec, where):
    """The harness' own bookkeeping failed (e.g. an internal name it reads was refactored away): remember it so that
    the run is reported as a harness error, never as a verdict, and let the code under test proceed untouched."""
    import traceback
    rec.spy_errors.append(where + ": " + traceback.format_exc(limit=4)[-400:])


def install_spies():
    global _INSTALLED
    if _INSTALLED:
        return
    _INSTALLED = True

    # --- Problem.__call__ -------------------------------------------------
    orig_call = cproblem.Problem.__call__
    _ORIG["Problem.__call__"] = orig_call

    @functools.wraps(orig_call)
    def spy_call(self, *a, **kw):
        rec = CUR
        if rec is None:
            return orig_call(self, *a, **kw)
        ent = None
        prev = rec.open_pcall
        try:
            x = a[0] if a else kw.get("x")
            penalty = a[1] if len(a) > 1 else kw.get("penalty", 0.0)
            idx = len(rec.pcalls)
            ent = {
                "idx": idx,
                "x": np.array(x, dtype=float, copy=True),
                "penalty": penalty,
                "phase": rec.phase,
                "kind": rec.step_kind if rec.phase == "main" else rec.phase,
                "c0": len(rec.calls),
                "ret": None,
                "exc": None,
                "nested_in": rec.open_pcall,
            }
            if rec.pb is None:
                rec.pb = self
            rec.pcalls.append(ent)
            rec.open_pcall = idx
        except Exception:  # noqa
            _spy_failed(rec, "Problem.__call__ (before)")
        try:
            ret = orig_call(self, *a, **kw)
        except BaseException as e:
            if ent is not None:
                ent["exc"] = type(e).__name__
                ent["c1"] = len(rec.calls)
            rec.open_pcall = prev
            raise
        try:
            if ent is not None:
                ent["ret"] = (float(ret[0]), np.array(ret[1], copy=True), np.array(ret[2], copy=True))
                ent["c1"] = len(rec.calls)
                if "filter" in rec.monitors:
                    ent["filter"] = (list(self._fun_filter), list(self._maxcv_filter))
            rec.open_pcall = prev
            if rec.hook is not None and ent is not None:
                rec.hook(rec, "pcall", ent)
        except Exception:  # noqa
            rec.open_pcall = prev
            _spy_failed(rec, "Problem.__call__ (after)")
        return ret

    cproblem.Problem.__call__ = spy_call

    # --- TrustRegion ------------------------------------------------------
    TR = cframework.TrustRegion
    orig_init = TR.__init__
    _ORIG["TrustRegion.__init__"] = orig_init

    @functools.wraps(orig_init)
    def spy_init(self, *a, **kw):
        rec = CUR
        if rec is None:
            return orig_init(self, *a, **kw)
        rec.phase = "init"
        rec.pb = a[0] if a else kw.get("pb")
        rec.framework = self
        try:
            return orig_init(self, *a, **kw)
        finally:
            rec.phase = "main"
            try:
                opts = a[1] if len(a) > 1 else kw.get("options")
                rec.notes["options_after_init"] = dict(opts)
            except Exception:  # noqa
                _spy_failed(rec, "TrustRegion.__init__")

    TR.__init__ = spy_init

    def wrap_step(name, kind):
        orig = getattr(TR, name)
        _ORIG["TrustRegion." + name] = orig

        @functools.wraps(orig)
        def spy(self, *a, **kw):
            rec = CUR
            if rec is None:
                return orig(self, *a, **kw)
            try:
                if kind == "geo" and "tr" in rec.monitors and a:
                    rec.notes.setdefault("geo_targets", []).append((int(a[0]), int(self.best_index)))
                if kind == "tr" and "tr" in rec.monitors:
                    rec.tr.append(_tr_state(self, rec))
                elif kind == "tr" and "pts" in rec.monitors:
                    rec.tr.append(_pts_state(self))
            except Exception:  # noqa
                _spy_failed(rec, "TrustRegion." + name + " (monitor)")
            out = orig(self, *a, **kw)
            rec.step_kind = kind
            if "steps" in rec.monitors:
                rec.notes.setdefault("steps", []).append(
                    (kind, np.array(self.x_best, copy=True),
                     [np.array(o, copy=True) for o in
                      (out if isinstance(out, tuple) else (out,))]))
            return out

        setattr(TR, name, spy)

    wrap_step("get_trust_region_step", "tr")
    wrap_step("get_second_order_correction_step", "soc")
    wrap_step("get_geometry_step", "geo")

    orig_sbi = TR.set_best_index
    _ORIG["TrustRegion.set_best_index"] = orig_sbi

    @functools.wraps(orig_sbi)
    def spy_sbi(self, *a, **kw):
        out = orig_sbi(self, *a, **kw)
        rec = CUR
        if rec is not None and "centre" in rec.monitors and hasattr(self, "_models"):
            try:
                m = self.models
                merits, viols = [], []
                for k in range(m.npt):
                    xk = m.interpolation.point(k)
                    merits.append(float(self.merit(xk, m.fun_val[k], m.cub_val[k, :], m.ceq_val[k, :])))
                    viols.append(float(self._pb.maxcv(xk, m.cub_val[k, :], m.ceq_val[k, :])))
                rec.notes.setdefault("centres", []).append((int(self.best_index), merits, viols))
            except Exception:  # noqa
                _spy_failed(rec, "TrustRegion.set_best_index (monitor)")
        return out

    TR.set_best_index = spy_sbi

    orig_idx = TR.get_index_to_remove
    _ORIG["TrustRegion.get_index_to_remove"] = orig_idx

    @functools.wraps(orig_idx)
    def spy_idx(self, *a, **kw):
        out = orig_idx(self, *a, **kw)
        rec = CUR
        if rec is not None and "tr" in rec.monitors:
            try:
                x_new = a[0] if a else kw.get("x_new")
                rec.notes.setdefault("removals", []).append(
                    (int(out[0]), int(self.best_index), x_new is not None))
            except Exception:  # noqa
                _spy_failed(rec, "TrustRegion.get_index_to_remove (monitor)")
        return out

    TR.get_index_to_remove = spy_idx

    # --- _build_result ----------------------------------------------------
    orig_build = cmain._build_result
    _ORIG["_build_result"] = orig_build

    import inspect
    build_sig = inspect.signature(orig_build)

    @functools.wraps(orig_build)
    def spy_build(*a, **kw):
        rec = CUR
        if rec is not None:
            try:
                vals = list(build_sig.bind(*a, **kw).arguments.values())  # by position: robust to renaming
                b = dict(zip(["pb", "penalty", "success", "status", "n_iter", "options"], vals))
                rec.pb = b["pb"]
                rec.phase = "result"
                fw = rec.framework
                rec.build = {
                    "penalty": float(b["penalty"]),
                    "success_in": bool(b["success"]),
                    "status": b["status"].value,
                    "n_iter": int(b["n_iter"]),
                    "options": dict(b["options"]),
                    "resolution": None if fw is None or not hasattr(fw, "_resolution")
                    else float(fw.resolution),
                    "radius": None if fw is None or not hasattr(fw, "_radius")
                    else float(fw.radius),
                    "ncalls_before": len(rec.calls),
                }
            except Exception:  # noqa
                _spy_failed(rec, "_build_result")
        return orig_build(*a, **kw)

    cmain._build_result = spy_build

    # --- Models updates (for C12 monitors in real runs) -------------------
    M = cmodels.Models
    for name in ("update_interpolation", "shift_x_base", "reset_models"):
        orig = getattr(M, name)
        _ORIG["Models." + name] = orig

        def mk(orig, name):
            @functools.wraps(orig)
            def spy(self, *a, **kw):
                rec = CUR
                pre = None
                want = (rec is not None and "lfn" in rec.monitors
                        and len(rec.notes.get("lfn", [])) < int(rec.case.get("lfn_cap", 6)))
                if want and name in ("update_interpolation", "shift_x_base"):
                    try:
                        pre = _models_snap(self)
                    except Exception:  # noqa
                        _spy_failed(rec, "Models." + name + " (lfn monitor, before)")
                out = orig(self, *a, **kw)
                if rec is not None and "models" in rec.monitors:
                    try:
                        _models_check(rec, self, name, a, out)
                    except Exception:  # noqa
                        _spy_failed(rec, "Models." + name + " (monitor)")
                if want:
                    try:
                        ent = {"op": name, "pre": pre, "post": _models_snap(self)}
                        if name == "update_interpolation":
                            ent["k"] = int(a[0] if a else kw.get("k_new"))
                            ent["ill"] = bool(out)
                        rec.notes.setdefault("lfn", []).append(ent)
                    except Exception:  # noqa
                        _spy_failed(rec, "Models." + name + " (lfn monitor)")
                return out
            return spy

        setattr(M, name, mk(orig, name))
    # --- Models.determinants (for C14 in real runs) ------------------------
    orig_det = M.determinants
    _ORIG["Models.determinants"] = orig_det

    @functools.wraps(orig_det)
    def spy_det(self, *a, **kw):
        out = orig_det(self, *a, **kw)
        rec = CUR
        if rec is not None and "dets" in rec.monitors:
            try:
                log = rec.notes.setdefault("dets", [])
                rec.notes["dets_total"] = rec.notes.get("dets_total", 0) + 1
                if len(log) < int(rec.case.get("dets_cap", 12)):
                    x_new = a[0] if a else kw.get("x_new")
                    k_new = a[1] if len(a) > 1 else kw.get("k_new")
                    log.append({"xpt": np.array(self.interpolation.xpt, float, copy=True),
                                "x_base": np.array(self.interpolation.x_base, float, copy=True),
                                "x_new": np.array(x_new, float, copy=True),
                                "k": None if k_new is None else int(k_new),
                                "out": np.array(out, float, copy=True)})
            except Exception:  # noqa
                _spy_failed(rec, "Models.determinants (monitor)")
        return out

    M.determinants = spy_det
    orig_minit = M.__init__
    _ORIG["Models.__init__"] = orig_minit

    @functools.wraps(orig_minit)
    def spy_minit(self, *a, **kw):
        out = orig_minit(self, *a, **kw)
        rec = CUR
        if rec is not None and "models" in rec.monitors:
            try:
                _models_check(rec, self, "init", (), None)
            except Exception:  # noqa
                _spy_failed(rec, "Models.__init__ (monitor)")
        if rec is not None and "lfn" in rec.monitors:
            try:
                rec.notes.setdefault("lfn", []).append({"op": "init", "pre": None, "post": _models_snap(self)})
            except Exception:  # noqa
                _spy_failed(rec, "Models.__init__ (lfn monitor)")
        return out

    M.__init__ = spy_minit


def _tr_state(fw, rec):
    pb = fw._pb
    m = fw.models
    merits = []
    viols = []
    for k in range(m.npt):
        xk = m.interpolation.point(k)
        merits.append(float(fw.merit(xk, m.fun_val[k], m.cub_val[k, :],
                                     m.ceq_val[k, :])))
        viols.append(float(pb.maxcv(xk, m.cub_val[k, :], m.ceq_val[k, :])))
    xl, xu = pb.bounds.xl, pb.bounds.xu
    pts = m.interpolation.x_base[:, None] + m.interpolation.xpt
    # magnitude of the terms the constraint violations are made of (their rounding errors, multiplied by the
    # penalty, are the uncertainty of a merit value recomputed after a shift of the base point)
    vmag = 1.0
    try:
        lin = pb.linear
        apts = np.abs(pts)
        for a_, b_ in ((lin.a_ub, lin.b_ub), (lin.a_eq, lin.b_eq)):
            if a_.size:
                vmag = max(vmag, float(np.max(np.abs(a_) @ apts + np.abs(b_)[:, None])))
        for arr in (m.cub_val, m.ceq_val):
            if arr.size:
                vmag = max(vmag, float(np.max(np.abs(arr[np.isfinite(arr)]), initial=1.0)))
    except Exception:  # noqa
        vmag = INF
    return {
        "radius": float(fw.radius),
        "resolution": float(fw.resolution),
        "penalty": float(fw.penalty),
        "viol_mag": vmag,
        "best_index": int(fw.best_index),
        "merits": merits,
        "viols": viols,
        "pts_out": float(max(np.max(xl[:, None] - pts, initial=0.0),
                             np.max(pts - xu[:, None], initial=0.0))),
        "pts_mag": float(max(np.max(np.abs(pts), initial=1.0),
                             np.max(np.abs(xl[np.isfinite(xl)]), initial=1.0),
                             np.max(np.abs(xu[np.isfinite(xu)]), initial=1.0))),
    }


def _pts_state(fw):
    pb = fw._pb
    m = fw.models
    xl, xu = pb.bounds.xl, pb.bounds.xu
    pts = m.interpolation.x_base[:, None] + m.interpolation.xpt
    return {
        "radius": float(fw.radius),
        "resolution": float(fw.resolution),
        "pts_out": float(max(np.max(xl[:, None] - pts, initial=0.0),
                             np.max(pts - xu[:, None], initial=0.0))),
        "pts_mag": float(max(np.max(np.abs(pts), initial=1.0),
                             np.max(np.abs(xl[np.isfinite(xl)]), initial=1.0),
                             np.max(np.abs(xu[np.isfinite(xu)]), initial=1.0))),
    }


def _models_snap(models):
    """Copy of everything that defines the models (C13 in real runs)."""
    it = models.interpolation
    quads = [models._fun] + list(models._cub) + list(models._ceq)
    vals = [np.array(models.fun_val, float, copy=True)]
    vals += [np.array(models.cub_val[:, i], float, copy=True) for i in range(models.m_nonlinear_ub)]
    vals += [np.array(models.ceq_val[:, i], float, copy=True) for i in range(models.m_nonlinear_eq)]
    return {"xpt": np.array(it.xpt, float, copy=True), "x_base": np.array(it.x_base, float, copy=True),
            "vals": vals,
            "quads": [(float(q._const), np.array(q._grad, float, copy=True), np.array(q._i_hess, float, copy=True),
                       np.array(q._e_hess, float, copy=True)) for q in quads]}


def _models_check(rec, models, name, args, out):
    """Interpolation residuals + stored-values bookkeeping (C12 in real runs)."""
    it = models.interpolation
    res = 0.0
    scale = 1.0
    for k in range(models.npt):
        xk = it.point(k)
        res = max(res, abs(models.fun(xk) - models.fun_val[k]))
        scale = max(scale, abs(models.fun_val[k]))
        if models.m_nonlinear_ub:
            res = max(res, float(np.max(np.abs(models.cub(xk) - models.cub_val[k, :]))))
            scale = max(scale, float(np.max(np.abs(models.cub_val[k, :]))))
        if models.m_nonlinear_eq:
            res = max(res, float(np.max(np.abs(models.ceq(xk) - models.ceq_val[k, :]))))
            scale = max(scale, float(np.max(np.abs(models.ceq_val[k, :]))))
    try:
        a, rs, (ev, _) = cmodels.build_system(it)
        aev = np.abs(ev)
        cond = float(np.max(aev) / max(np.min(aev), 1e-300))
    except Exception:  # noqa
        cond = INF
    # magnitude of the terms the stored quadratics are made of, at the distance of the interpolation points from
    # the base (they may cancel by many orders once a barrier value has left the set; evaluating the model cannot
    # be more accurate than eps times this)
    rr = float(np.max(np.linalg.norm(it.xpt, axis=0), initial=0.0))
    ysq = np.sum(it.xpt ** 2, axis=0)
    rep = 0.0
    for q in [models._fun] + list(models._cub) + list(models._ceq):
        h = float(np.sum(np.abs(q._i_hess) * ysq) + np.sum(np.abs(q._e_hess)) * rr * rr)
        rep = max(rep, abs(float(q._const)) + float(np.sum(np.abs(q._grad))) * rr + h)
    ent = {"op": name, "res": float(res), "scale": float(scale), "cond": cond, "repr": rep if np.isfinite(rep) else INF,
           "ill": bool(out) if name == "update_interpolation" else False}
    if name == "update_interpolation":
        k_new, x_new, f, cub, ceq = args
        last = rec.pcalls[-1] if rec.pcalls else None
        ok = None
        if last is not None and last["ret"] is not None:
            xn = np.asarray(x_new, float)
            rnd = 8 * np.finfo(float).eps * np.maximum(np.abs(xn), np.abs(it.x_base))
            ok = bool(
                np.array_equal(last["x"], xn)
                and last["ret"][0] == f
                and np.array_equal(last["ret"][1], cub)
                and np.array_equal(last["ret"][2], ceq)
                and models.fun_val[k_new] == f
                and np.array_equal(models.cub_val[k_new, :], cub)
                and np.array_equal(models.ceq_val[k_new, :], ceq)
                and np.all(np.abs(it.point(k_new) - xn) <= rnd)
            )
        ent["stored_ok"] = ok
    elif name == "init":
        # the k-th evaluation of the run was made at the k-th initial point and returned the values stored for it
        ok = None
        if len(rec.pcalls) >= models.npt:
            ok = True
            for k in range(models.npt):
                p = rec.pcalls[k]
                if p["ret"] is None:
                    ok = None
                    break
                xk = it.point(k)
                rnd = 8 * np.finfo(float).eps * np.maximum(np.abs(xk), np.abs(it.x_base))
                if not (p["x"].shape == xk.shape and np.all(np.abs(p["x"] - xk) <= rnd)
                        and p["ret"][0] == models.fun_val[k]
                        and np.array_equal(p["ret"][1], models.cub_val[k, :])
                        and np.array_equal(p["ret"][2], models.ceq_val[k, :])):
                    ok = False
                    break
        ent["stored_ok"] = ok
    rec.notes.setdefault("models", []).append(ent)


# --------------------------------------------------------------------------
# One execution
# --------------------------------------------------------------------------
def run(case, timeout=60.0, hook=None):
    """Run ``minimize`` once on ``case``; never raises for the SUT's faults."""
    global CUR
    install_spies()
    rec = Rec(case)
    rec.hook = hook
    kwargs = build(case, rec)
    rec.kwargs = kwargs
    buf = io.StringIO()
    CUR = rec
    restore = None
    if case.get("stub"):
        from . import e3
        restore = e3.install(rec)
    try:
        with warnings.catch_warnings(record=True) as wlist:
            warnings.simplefilter("always")
            with np.errstate(all="ignore"):
                try:
                    with common.watchdog(timeout):
                        with redirect_stdout(buf):
                            rec.res = cobyqa.minimize(**kwargs)
                except common.Timeout:
                    rec.exc = ("Timeout", f"no return within {timeout}s", "")
                except BaseException as e:  # noqa
                    import traceback

                    tb = traceback.extract_tb(e.__traceback__)
                    site = "?"
                    for fr in reversed(tb):
                        if fr.filename.startswith(PKG_DIR):
                            site = fr.filename[len(PKG_DIR) + 1:] + ":" + fr.name
                            break
                    rec.exc = (type(e).__name__, str(e)[:200], site)
        rec.warnings = [(w.category.__name__, str(w.message)[:200]) for w in wlist]
    finally:
        CUR = None
        if restore is not None:
            restore()
    rec.stdout = buf.getvalue()
    if rec.spy_errors:
        raise common.HarnessError("the harness' monitors failed (an internal name they read has probably changed): "
                                  + rec.spy_errors[0])
    for key in rec.dev:
        if key not in rec.used_dev:
            rec.notes.setdefault("unused_dev", []).append(key)
    return rec


def digest(rec):
    """Canonical observation: user-space log + result (bit exact)."""
    h = []
    for c in rec.calls:
        v = c["val"]
        if isinstance(v, np.ndarray):
            v = v.tobytes().hex()
        elif isinstance(v, float):
            v = np.float64(v).tobytes().hex()
        h.append((c["fid"], c["x"].tobytes().hex(), v))
    r = rec.res
    if r is not None:
        h.append(("res", np.asarray(r.x, float).tobytes().hex(),
                  np.float64(r.fun).tobytes().hex(),
                  np.float64(r.maxcv).tobytes().hex(),
                  int(r.status), int(r.nfev), int(r.nit), bool(r.success)))
    if rec.exc is not None:
        h.append(("exc",) + tuple(rec.exc[:1]))
    return common.sha(h)


# --------------------------------------------------------------------------
# Reference: user-space maximum constraint violation
# --------------------------------------------------------------------------
def arrays_tol(*arrays):
    size = max(a.size for a in arrays)
    weight = max(float(np.max(np.abs(a[np.isfinite(a)]), initial=1.0))
                 for a in arrays)
    return 10.0 * np.finfo(float).eps * max(size, 1.0) * weight


def interval_excess(v, lb, ub):
    """Largest amount by which values leave [lb, ub]; NaN limits = no limit.

    Returns (excess, slack) where slack is the rounding allowance due to the
    equality mid-point convention.
    """
    v = np.asarray(v, float)
    lb = np.broadcast_to(np.asarray(lb, float), v.shape).copy()
    ub = np.broadcast_to(np.asarray(ub, float), v.shape).copy()
    lb[np.isnan(lb)] = -INF
    ub[np.isnan(ub)] = INF
    with np.errstate(invalid="ignore", over="ignore"):
        lo = np.where(lb > -INF, lb - v, -INF)
        hi = np.where(ub < INF, v - ub, -INF)
    limited = (lb > -INF) | (ub < INF)
    ex = np.maximum(lo, hi)
    if np.any(np.isnan(v[limited])):
        return NAN
    ex = ex[limited]
    return float(np.max(np.maximum(ex, 0.0), initial=0.0))


def ref_violation(case, x, con_vals):
    """True maximum violation at user-space ``x`` of the constraints as the
    user stated them.  ``con_vals[j]`` = logged values of nonlinear object j.
    Returns (value, tol) with tol the rounding allowance of the linear part.
    """
    x = np.asarray(x, float)
    parts = [0.0]
    tol = 0.0
    eps = np.finfo(float).eps
    b = case.get("bounds")
    if b is not None:
        parts.append(interval_excess(x, b["lb"], b["ub"]))
    j = 0
    for con in case.get("cons", []):
        if con["kind"] == "lin":
            A = np.array(con["A"], float)
            A = np.where(np.isnan(A), 0.0, A)
            A = np.atleast_2d(A)
            v = A @ x
            lb = np.array(con["lb"], float)
            ub = np.array(con["ub"], float)
            parts.append(interval_excess(v, lb, ub))
            mag = float(np.max(np.abs(A) @ np.abs(x), initial=0.0))
            lim = np.concatenate([np.atleast_1d(lb), np.atleast_1d(ub)])
            lim = lim[np.isfinite(lim)]
            mag += float(np.max(np.abs(lim), initial=0.0))
            tol = max(tol, 100.0 * eps * (x.size + 2) * max(mag, 1.0))
        else:
            vals = con_vals[j]
            j += 1
            form = con.get("form", "nlc")
            if form == "dict_eq":
                lb = ub = np.zeros(len(con["funs"]))
            elif form == "dict_ineq":
                lb = np.zeros(len(con["funs"]))
                ub = np.full(len(con["funs"]), INF)
            else:
                lb, ub = con["lb"], con["ub"]
            if vals is None:
                parts.append(NAN)
            else:
                parts.append(interval_excess(vals, lb, ub))
                lim = np.concatenate([np.atleast_1d(np.array(lb, float)),
                                      np.atleast_1d(np.array(ub, float))])
                lim = lim[np.isfinite(lim)]
                tol = max(tol, 10.0 * eps * float(np.max(np.abs(lim), initial=0.0)))
    if any(isinstance(p, float) and np.isnan(p) for p in parts):
        return NAN, tol
    return float(max(parts)), tol


def n_nl(case):
    return sum(1 for c in case.get("cons", []) if c["kind"] != "lin")


def eval_groups(rec):
    """Split the user-call log into groups, one per Problem.__call__."""
    groups = []
    for p in rec.pcalls:
        if p["nested_in"] is not None:
            continue
        groups.append((p, rec.calls[p["c0"]:p["c1"]]))
    return groups


def same_bits(a, b):
    a = np.asarray(a, float)
    b = np.asarray(b, float)
    return a.shape == b.shape and a.tobytes() == b.tobytes()


def feq(a, b):
    """Bit-level float equality, NaN-aware (but +0 == -0)."""
    a = float(a)
    b = float(b)
    return (a == b) or (a != a and b != b)
