"""Command line of the harness:  ./check <ID> [--tier quick|thorough] [--replay FILE]"""
import argparse
import importlib
import json
import os
import sys
import time

from . import common


def load(prop_id):
    return importlib.import_module("mc.props." + prop_id.lower())


def main(argv=None):
    ap = argparse.ArgumentParser()
    ap.add_argument("prop")
    ap.add_argument("--tier", default=os.environ.get("VERIF_TIER", "quick"),
                    choices=["quick", "thorough"])
    ap.add_argument("--replay")
    ap.add_argument("--limit", type=int, default=0, help="debug: cap roots")
    args = ap.parse_args(argv)
    t0 = time.time()
    try:
        common.bind_repo()
        mod = load(args.prop)
        if args.replay:
            return replay(mod, args.replay)
        seed = common.seed()
        if hasattr(mod, "execute"):
            agg, coverage, herr, roots = mod.execute(args.tier, seed, args.limit)
        else:
            roots = mod.roots(args.tier, seed)
            if args.limit:
                roots = roots[:args.limit]
            agg = common.Agg()
            for out in common.run_roots(mod, roots,
                                        chunksize=getattr(mod, "CHUNK", None)):
                agg.add(out)
            coverage, herr = mod.coverage(agg, args.tier, roots)
        for e in herr:
            agg.errors.append((None, "vacuity: " + e))
        # samples: a few actual cases, chosen by the seed
        if "samples" not in coverage and roots:
            k = max(1, len(roots) // 4)
            picks = [roots[(seed * 7 + i * k) % len(roots)] for i in range(3)]
            coverage["samples"] = picks
        rc = common.finish(mod.ID, args.tier, mod.LEVEL, agg, coverage,
                           mod.ASSUMPTIONS, t0)
        stats = {k: (len(v) if isinstance(v, set) else v)
                 for k, v in sorted(agg.stats.items())}
        print(f"[{mod.ID}] tier={args.tier} roots={len(roots)} "
              f"wall={time.time() - t0:.1f}s rc={rc}")
        print(f"[{mod.ID}] stats: {json.dumps(stats)}")
        return rc
    except common.HarnessError as e:
        print("HARNESS-ERROR:", e, file=sys.stderr)
        return 2


def replay(mod, path):
    with open(path) as fh:
        body = json.load(fh)
    case = body["case"]
    # a check whose violations consist in state surviving a call (C11) can only show them once per process
    outs = [mod.run_case(case) for _ in range(1 if getattr(mod, "REPLAY_ONCE", False) else 2)]
    outs = outs * 2 if len(outs) == 1 else outs
    k0 = sorted(v["key"] for v in outs[0].get("viol", []))
    k1 = sorted(v["key"] for v in outs[1].get("viol", []))
    if k0 != k1 or outs[0].get("digests") != outs[1].get("digests"):
        print("HARNESS-ERROR: replay is not deterministic", k0, k1, file=sys.stderr)
        return 2
    if outs[0].get("harness_error"):
        print("HARNESS-ERROR:", outs[0]["harness_error"], file=sys.stderr)
        return 2
    known = common.load_known(mod.ID)
    rc = 0
    for v in outs[0].get("viol", []):
        if v["key"] in known:
            print(f"KNOWN-FINDING: property={mod.ID} {known[v['key']].get('what')}")
        else:
            print(f"VIOLATION property={mod.ID} replay={path}")
            print(f"  key={v['key']} what={v['what']}")
            rc = 1
    if not outs[0].get("viol"):
        print(f"[{mod.ID}] replay: no violation")
    return rc


if __name__ == "__main__":
    sys.exit(main())
