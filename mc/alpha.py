"""Problem alphabet for engine E1 (DESIGN 4.1).  Everything is enumerated,
nothing is drawn at random; all data are dyadic rationals of order one."""
import itertools

import numpy as np

INF = float("inf")
NAN = float("nan")
FMAX = float(np.finfo(float).max)

# per-variable bound patterns: name -> (lb, ub, x0_in, x0_on, x0_out)
PATTERNS = {
    "free": (-INF, INF, 0.25, 0.25, 0.25),
    "lo": (-0.5, INF, 0.75, -0.5, -1.5),
    "up": (-INF, 1.5, 0.25, 1.5, 2.5),
    "wide": (-2.0, 3.0, 1.0, -2.0, 4.0),
    "narrow": (0.25, 0.75, 0.5, 0.25, 1.5),
    # non-dyadic end points: the affine scaling map does not round-trip exactly
    "oddw": (0.1, 0.7, 0.3, 0.1, 1.5),
    "oddn": (-0.8, 0.3, 0.1, 0.3, -1.5),
    # large magnitude: radii and steps of order 1e5 (rounding of constraint residuals grows with the step)
    "big": (-2.0 ** 20, 2.0 ** 20, 2.0 ** 18 + 0.25, -2.0 ** 20, 2.0 ** 21),
    # the largest finite numbers used as "no bound": sums and differences of the bounds overflow
    "fmax": (-FMAX, FMAX, 1.0, -FMAX, 0.25),
    "fmaxup": (0.25 * FMAX, FMAX, 0.5 * FMAX, FMAX, 0.0),
    "fixed": (0.5, 0.5, 0.5, 0.5, 2.0),
    "fixulp": (0.5, float(np.nextafter(0.5, 1.0)), 0.5, 0.5, -1.0),
}
PAT_ORDER = ["free", "lo", "up", "wide", "narrow", "fixed", "fixulp"]
FIXED_PATS = ("fixed", "fixulp")


def bounds_from(pats, form="Bounds"):
    if all(p == "free" for p in pats) and form == "none":
        return None
    return {"form": form,
            "lb": [PATTERNS[p][0] for p in pats],
            "ub": [PATTERNS[p][1] for p in pats]}


def x0_from(pats, where):
    idx = {"in": 2, "on": 3, "out": 4}[where]
    return [PATTERNS[p][idx] for p in pats]


def pattern_assignments(n, pats=PAT_ORDER, up_to_perm=False):
    if up_to_perm:
        return list(itertools.combinations_with_replacement(pats, n))
    return list(itertools.product(pats, repeat=n))


# ---------------------------------------------------------------- objectives
_A = [1.0, 2.0, 0.5, 1.5, 0.75]
_C = [0.75, -0.25, 1.25, 0.5, -0.75]
_G = [1.0, -0.5, 0.25, -1.0, 0.5]


def objective(kind, n, nan=None):
    if kind == "quad":
        o = {"kind": "quad", "a": _A[:n], "c": _C[:n]}
    elif kind == "quad_far":  # minimiser outside the usual boxes
        o = {"kind": "quad", "a": _A[:n], "c": [4.0, -3.0, 5.0, 4.0, -4.0][:n]}
    elif kind == "noisy":
        o = {"kind": "noisy", "a": _A[:n], "c": _C[:n]}
    elif kind == "lin":
        o = {"kind": "lin", "g": _G[:n]}
    elif kind == "abs":
        o = {"kind": "abs", "c": _C[:n]}
    elif kind == "zero":
        o = {"kind": "zero"}
    elif kind == "const":
        o = {"kind": "const", "v": 1.5}
    elif kind == "cubic":
        o = {"kind": "cubic", "c": _C[:n]}
    elif kind == "rosen":
        o = {"kind": "rosen"} if n >= 2 else {"kind": "quad", "a": _A[:n], "c": _C[:n]}
    elif kind == "none":
        o = {"kind": "none"}
    else:
        raise ValueError(kind)
    if nan is not None:
        o = dict(o)
        o["nan"] = nan
    return o


NAN_REGIONS = {
    "everywhere": {"type": "halfspace", "i": 0, "t": -1e30, "side": 1},
    "half": {"type": "halfspace", "i": 0, "t": 0.875, "side": 1},
    "outball": {"type": "outball", "c": [0.5, 0.5, 0.5, 0.5, 0.5], "r2": 4.0},
    "inball": {"type": "inball", "c": [0.75, -0.25, 1.25, 0.5, -0.75], "r2": 0.015625},
}


def nan_region(name, n):
    r = dict(NAN_REGIONS[name])
    if "c" in r:
        r["c"] = r["c"][:n]
    return r


# --------------------------------------------------------------- constraints
def constraint(kind, n, form="nlc"):
    """One constraint object of the alphabet."""
    ones = [1.0] * n
    if kind == "lin_le":  # sum x <= 1
        return {"kind": "lin", "A": [ones], "lb": [-INF], "ub": [1.0]}
    if kind == "lin_ge":  # x0 - 0.5*sum(others) >= -0.25
        a = [1.0] + [-0.5] * (n - 1)
        return {"kind": "lin", "A": [a], "lb": [-0.25], "ub": [INF]}
    if kind == "lin_eq":
        a = [1.0] + [0.5] * (n - 1)
        return {"kind": "lin", "A": [a], "lb": [0.5], "ub": [0.5]}
    if kind == "lin_two":
        a = [1.0] + [-1.0] * (n - 1)
        return {"kind": "lin", "A": [a], "lb": [-0.5], "ub": [0.75]}
    if kind == "lin_mixed":  # two rows: one equality, one two-sided
        a1 = [1.0] + [0.5] * (n - 1)
        a2 = [1.0] + [-1.0] * (n - 1)
        return {"kind": "lin", "A": [a1, a2], "lb": [0.5, -0.5], "ub": [0.5, 0.75]}
    if kind == "lin_contra":  # x0 <= -1 and x0 >= 1 in one object
        a = [1.0] + [0.0] * (n - 1)
        return {"kind": "lin", "A": [a, a], "lb": [-INF, 1.0], "ub": [-1.0, INF]}
    if kind == "lin_redund":
        return {"kind": "lin", "A": [ones, ones], "lb": [-INF, -INF], "ub": [1.0, 1.0]}
    c = [0.5] * n
    if kind == "ball_le":  # |x - c|^2 <= 1
        return {"kind": "nl", "form": form, "funs": [{"kind": "ball", "c": c, "r2": 1.0}],
                "lb": [-INF], "ub": [0.0]}
    if kind == "ball_eq":
        return {"kind": "nl", "form": form, "funs": [{"kind": "ball", "c": c, "r2": 1.0}],
                "lb": [0.0], "ub": [0.0]}
    if kind == "ball_two":  # 0.25 <= |x-c|^2 <= 1  (stated on the ball function - r2=0)
        return {"kind": "nl", "form": form, "funs": [{"kind": "ball", "c": c, "r2": 0.0}],
                "lb": [0.25], "ub": [1.0]}
    if kind == "ball_ge":  # dict "ineq" convention: fun >= 0 : 1 - |x-c|^2 ... stated as r2 - ...
        return {"kind": "nl", "form": form, "funs": [{"kind": "ball", "c": c, "r2": 0.25}],
                "lb": [0.0], "ub": [INF]}
    if kind == "nl_vec":  # vector valued, mixed limits
        a = [1.0] + [0.5] * (n - 1)
        return {"kind": "nl", "form": form,
                "funs": [{"kind": "ball", "c": c, "r2": 1.0},
                         {"kind": "aff", "a": a, "b": 0.25},
                         {"kind": "prod", "b": 0.0}],
                "lb": [-INF, 0.0, -1.0], "ub": [0.0, 0.0, 2.0]}
    if kind == "nl_aff_le":
        a = [1.0] + [0.5] * (n - 1)
        return {"kind": "nl", "form": form, "funs": [{"kind": "aff", "a": a, "b": 0.25}],
                "lb": [-INF], "ub": [0.0]}
    if kind == "cubic_le":  # strongly nonlinear: many second-order-correction steps
        return {"kind": "nl", "form": form, "funs": [{"kind": "cubic", "c": [0.25] * n}],
                "lb": [-INF], "ub": [-0.5]}
    if kind == "cubic_eq":
        return {"kind": "nl", "form": form, "funs": [{"kind": "cubic", "c": [0.25] * n}],
                "lb": [0.5], "ub": [0.5]}
    if kind == "nl_contra":  # ball <= -1 : impossible
        return {"kind": "nl", "form": form, "funs": [{"kind": "ball", "c": c, "r2": 0.0}],
                "lb": [-INF], "ub": [-1.0]}
    raise ValueError(kind)


def cons_set(name, n, form="nlc"):
    """Named sets of constraint objects."""
    table = {
        "none": [],
        "lin_le": ["lin_le"],
        "lin_eq": ["lin_eq"],
        "lin_two": ["lin_two"],
        "lin_mixed": ["lin_mixed"],
        "ball_le": ["ball_le"],
        "ball_eq": ["ball_eq"],
        "ball_two": ["ball_two"],
        "nl_vec": ["nl_vec"],
        "lin+nl": ["lin_le", "ball_le"],
        "lin_eq+nl_eq": ["lin_eq", "ball_eq"],
        "two_nl": ["ball_le", "nl_aff_le"],
        "three_nl": ["ball_two", "nl_aff_le", "nl_vec"],
        "cubic_le": ["cubic_le"],
        "cubic_eq": ["cubic_eq"],
        "lin+cubic": ["lin_le", "cubic_le"],
        "contra_lin": ["lin_contra"],
        "contra_nl": ["nl_contra"],
        "redund": ["lin_redund", "ball_le", "ball_le"],
    }
    return [constraint(k, n, form if not k.startswith("lin") else "nlc")
            for k in table[name]]


def base_case(n, pats, where="in", obj="quad", cons="none", form="nlc",
              bform="Bounds", options=None, nan=None, callback=None,
              constants=None):
    if len(pats) != n:
        raise ValueError(f"harness: {len(pats)} bound patterns for n={n}")
    case = {
        "n": n,
        "obj": objective(obj, n, nan_region(nan, n) if nan else None),
        "x0": x0_from(pats, where),
        "bounds": bounds_from(pats, bform),
        "cons": cons_set(cons, n, form) if isinstance(cons, str) else cons,
        "options": dict(options or {}),
        "tag": {"pats": list(pats), "x0": where, "obj": obj,
                "cons": cons if isinstance(cons, str) else "custom",
                "form": form, "bform": bform, "nan": nan},
    }
    if callback is not None:
        case["callback"] = callback
    if constants:
        case["constants"] = dict(constants)
    return case


def permute(seq, seed):
    """Deterministic permutation of the enumeration order (VERIF_SEED)."""
    seq = list(seq)
    if seed:
        rng = np.random.RandomState(seed % (2 ** 31))
        idx = rng.permutation(len(seq))
        seq = [seq[i] for i in idx]
    return seq
