"""Shared plumbing of the model-checking harness: repo binding, worker pool,
evidence files, replay files and known findings.

Nothing in here knows about a particular property.
"""
import hashlib
import json
import math
import multiprocessing
import os
import signal
import subprocess
import sys
import time
import traceback

VERIF = os.path.dirname(os.path.dirname(os.path.abspath(__file__)))
REPO = os.environ.get("VERIF_REPO", "/repo")
NPROC = int(os.environ.get("VERIF_NPROC", "16"))
EVIDENCE_SCHEMA = "/root/.vp/EVIDENCE.schema.json"
# where evidence/ and replays/ are written (mutant runs redirect this)
OUT = os.environ.get("VERIF_OUT", VERIF)


class HarnessError(Exception):
    """A failure of the machinery itself (exit status 2), never a verdict."""


def bind_repo():
    """Make ``import cobyqa`` resolve to the working tree under VERIF_REPO."""
    if REPO not in sys.path[:1]:
        sys.path.insert(0, REPO)
    import cobyqa  # noqa

    here = os.path.realpath(os.path.dirname(cobyqa.__file__))
    want = os.path.realpath(os.path.join(REPO, "cobyqa"))
    if here != want:
        raise HarnessError(f"cobyqa imported from {here}, expected {want}")
    return cobyqa


def seed():
    try:
        return int(os.environ.get("VERIF_SEED", "0"))
    except ValueError:
        return 0


# --------------------------------------------------------------------------
# JSON helpers (floats are kept exact; NaN/inf use Python's JSON extension)
# --------------------------------------------------------------------------
def jdump(obj, **kw):
    return json.dumps(obj, sort_keys=True, default=_jdefault, **kw)


def _jdefault(o):
    import numpy as np

    if isinstance(o, np.ndarray):
        return o.tolist()
    if isinstance(o, (np.floating,)):
        return float(o)
    if isinstance(o, (np.integer,)):
        return int(o)
    if isinstance(o, (np.bool_,)):
        return bool(o)
    if isinstance(o, (set, frozenset)):
        return sorted(o)
    if isinstance(o, bytes):
        return o.hex()
    return repr(o)


def sha(obj):
    return hashlib.sha1(jdump(obj).encode()).hexdigest()[:16]


def sanitize(o):
    """Make an object strictly JSON-compliant (for the evidence files)."""
    if isinstance(o, float):
        if math.isnan(o):
            return "NaN"
        if math.isinf(o):
            return "inf" if o > 0 else "-inf"
        return o
    if isinstance(o, dict):
        return {str(k): sanitize(v) for k, v in o.items()}
    if isinstance(o, (list, tuple)):
        return [sanitize(v) for v in o]
    if isinstance(o, (str, int, bool)) or o is None:
        return o
    return sanitize(json.loads(jdump(o)))


# --------------------------------------------------------------------------
# Watchdog: turns a hang of one execution into an exception in the worker.
# --------------------------------------------------------------------------
class Timeout(BaseException):
    pass


def _on_alarm(signum, frame):
    raise Timeout()


class watchdog:
    def __init__(self, seconds):
        self.seconds = seconds

    def __enter__(self):
        self.old = signal.signal(signal.SIGALRM, _on_alarm)
        signal.setitimer(signal.ITIMER_REAL, self.seconds)

    def __exit__(self, *exc):
        signal.setitimer(signal.ITIMER_REAL, 0)
        signal.signal(signal.SIGALRM, self.old)
        return False


# --------------------------------------------------------------------------
# Worker pool: roots are distributed over forked workers; each root is run by
# ``mod.run_case`` and returns a small dict that the parent aggregates.
# --------------------------------------------------------------------------
_WORK_MOD = None


def _work(item):
    idx, case = item
    try:
        out = _WORK_MOD.run_case(case)
    except Timeout:
        out = {"viol": [], "stats": {}, "harness_error": "timeout in harness"}
    except BaseException:  # noqa
        out = {
            "viol": [],
            "stats": {},
            "harness_error": traceback.format_exc(limit=12),
            "case": case,
        }
    out["idx"] = idx
    return out


def run_roots(mod, roots, chunksize=None, nproc=None):
    """Run ``mod.run_case`` over all roots; yields the per-root outputs."""
    global _WORK_MOD
    _WORK_MOD = mod
    nproc = nproc or NPROC
    items = list(enumerate(roots))
    if nproc <= 1 or len(items) <= 2:
        for it in items:
            yield _work(it)
        return
    if chunksize is None:
        chunksize = max(1, min(16, len(items) // (nproc * 8)))
    ctx = multiprocessing.get_context("fork")
    with ctx.Pool(nproc) as pool:
        for out in pool.imap_unordered(_work, items, chunksize=chunksize):
            yield out


class Agg:
    """Aggregation of per-root outputs."""

    def __init__(self):
        self.stats = {}
        self.viol = []
        self.errors = []
        self.digests = set()
        self.nontrivial = set()
        self.roots = 0
        self.samples = []
        self.extra = []

    def add(self, out):
        self.roots += 1
        for k, v in out.get("stats", {}).items():
            if isinstance(v, (int, float)):
                self.stats[k] = self.stats.get(k, 0) + v
            elif isinstance(v, list):
                self.stats.setdefault(k, set()).update(
                    tuple(x) if isinstance(x, list) else x for x in v
                )
        self.viol.extend(out.get("viol", []))
        if out.get("harness_error"):
            self.errors.append((out.get("case"), out["harness_error"]))
        for d in out.get("digests", []):
            self.digests.add(d)
        for d in out.get("nontrivial", []):
            self.nontrivial.add(d)
        if out.get("sample") is not None and len(self.samples) < 200:
            self.samples.append((out["idx"], out["sample"]))
        if out.get("extra") is not None:
            self.extra.append(out["extra"])


# --------------------------------------------------------------------------
# Known findings
# --------------------------------------------------------------------------
def load_known(prop_id):
    path = os.path.join(VERIF, "known_findings.json")
    if not os.path.exists(path):
        return {}
    with open(path) as fh:
        data = json.load(fh)
    out = {}
    for ent in data.get("findings", []):
        if ent.get("property") == prop_id and ent.get("status") == "open":
            out[ent["key"]] = ent
    return out


# --------------------------------------------------------------------------
# Reporting
# --------------------------------------------------------------------------
def write_replay(prop_id, viol):
    d = os.path.join(OUT, "replays", prop_id)
    os.makedirs(d, exist_ok=True)
    body = {
        "property": prop_id,
        "key": viol["key"],
        "what": viol["what"],
        "case": viol["case"],
    }
    if "detail" in viol:
        body["detail"] = viol["detail"]
    path = os.path.join(d, sha([viol["key"], viol["case"]]) + ".json")
    with open(path, "w") as fh:
        fh.write(jdump(body, indent=1))
    # a plain unit test that replays this one case without the explorer (fails while the violation persists)
    test = os.path.join(d, "test_" + os.path.basename(path)[:-5] + ".py")
    with open(test, "w") as fh:
        fh.write(
            '"""Generated by the harness: replays one violating case of %s.\n'
            'Run with:  cd %s && VERIF_REPO=${VERIF_REPO:-/repo} PYTHONHASHSEED=0 OMP_NUM_THREADS=1 '
            '/venv/bin/python -B -m pytest -q -p no:cacheprovider %s\n"""\n'
            "import os\nimport sys\n\nsys.path.insert(0, %r)\n\n\n"
            "def test_replay():\n"
            "    from mc import cli\n"
            "    assert cli.main([%r, '--replay', %r]) == 0, %r\n"
            % (prop_id, VERIF, test, VERIF, prop_id, path, viol["what"][:300]))
    return path


def write_evidence(prop_id, tier, level, coverage, assumptions, wall, nviol):
    ev = {
        "property_id": prop_id,
        "tier": tier,
        "seed": seed(),
        "level": level,
        "coverage": sanitize(coverage),
        "assumptions": list(assumptions),
        "wall_s": round(wall, 3),
        "violations": int(nviol),
    }
    d = os.path.join(OUT, "evidence")
    os.makedirs(d, exist_ok=True)
    path = os.path.join(d, prop_id + ".json")
    tmp = path + ".tmp"
    with open(tmp, "w") as fh:
        json.dump(ev, fh, indent=1, sort_keys=True, allow_nan=False)
    os.replace(tmp, path)
    _validate_evidence(path)
    return path


def _validate_evidence(path):
    """Validate against the schema with the tooling venv's jsonschema."""
    if not os.path.exists(EVIDENCE_SCHEMA):
        return
    code = (
        "import json,sys,jsonschema;"
        "jsonschema.validate(json.load(open(sys.argv[1])),"
        "json.load(open(sys.argv[2])))"
    )
    try:
        r = subprocess.run(
            ["python3-vt", "-c", code, path, EVIDENCE_SCHEMA],
            capture_output=True,
            text=True,
            timeout=60,
        )
    except (OSError, subprocess.TimeoutExpired):
        return
    if r.returncode != 0:
        raise HarnessError("evidence file does not validate: " + r.stderr[-800:])


def finish(prop_id, tier, level, agg, coverage, assumptions, t0,
           max_replays=25):
    """Print verdict lines, write replay + evidence files, return exit code."""
    known = load_known(prop_id)
    by_key = {}
    for v in agg.viol:
        by_key.setdefault(v["key"], []).append(v)
    new_keys = [k for k in by_key if k not in known]
    seen_known = [k for k in by_key if k in known]
    for k in sorted(seen_known):
        print(f"KNOWN-FINDING: property={prop_id} {known[k].get('what', k)}"
              f" [{len(by_key[k])} case(s), key={k}]")
    rc = 0
    paths = []
    for k in sorted(new_keys)[:max_replays]:
        v = min(by_key[k], key=lambda v: len(jdump(v["case"])))
        p = write_replay(prop_id, v)
        paths.append(p)
        print(f"VIOLATION property={prop_id} replay={p}")
        print(f"  key={k} cases={len(by_key[k])} what={v['what']}")
        rc = 1
    if len(new_keys) > max_replays:
        print(f"  ... and {len(new_keys) - max_replays} more distinct keys")
    if agg.errors:
        for case, err in agg.errors[:3]:
            print("HARNESS-ERROR:", err, file=sys.stderr)
            if case is not None:
                print("  case:", jdump(case)[:600], file=sys.stderr)
        rc = 2 if rc == 0 else rc
    coverage = dict(coverage)
    coverage.setdefault("violating_keys", sorted(new_keys)[:50])
    coverage.setdefault("known_finding_keys", sorted(seen_known))
    write_evidence(prop_id, tier, level, coverage, assumptions,
                   time.time() - t0, len(new_keys))
    return rc
