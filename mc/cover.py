"""Cross-feature cases: a t-way covering array over the feature dimensions of a
``minimize`` call (every t-tuple of feature values occurs in at least one case).

This is enumeration, not sampling: the set of t-tuples is finite and the
generator asserts that each of them is covered; the construction itself is a
deterministic greedy procedure.  The resulting cases are added to the roots
of the E1-based property checks, so that every oracle also sees every pair /
triple of features together (most seeded changes that the first version of a
check missed needed exactly such a combination: scale x fixed variable,
filter_size x history, stopping callback x sampling, ...).
"""
import itertools
import json
import os

from . import alpha

INF = alpha.INF

FACTORS = [
    ("n", [1, 2, 3]),
    ("box", ["free", "wide", "odd", "lo", "narrow", "fixwide", "ulpwide", "big"]),
    ("x0", ["in", "on", "out"]),
    ("obj", ["quad", "quad_far", "abs", "lin", "noisy", "none", "quad_nan", "const", "cubic", "quad_nan_out", "zero",
             "rosen"]),
    ("cons", ["none", "lin_le", "lin_eq", "lin_mixed", "ball_le", "ball_eq", "ball_two", "nl_vec", "cubic_le",
              "lin+nl", "lin+cubic", "two_nl", "dict_ineq", "dict_eq_args", "contra_nl", "three_nl", "redund",
              "cubic_eq", "contra_lin", "lin_two"]),
    ("scale", [False, True]),
    ("npt", ["min", "minplus1", "default", "max"]),
    ("maxfev", [1, 2, 5, 25, 60]),
    ("maxiter", [None, 1, 3]),
    ("target", [None, 0.375, 2.0 ** 60]),
    ("filter", [None, 1, 3]),
    ("history", ["off", "on", "size2", "size1"]),
    ("callback", ["none", "xk", "ir", "stop1", "stop3", "stop9", "nanwrite"]),
    ("disp", [False, True]),
    ("debug", [False, True]),
    ("radius", ["default", "half", "tiny0", "big", "huge"]),
    ("constant", ["default", "slowshrink", "ratios", "notcg", "shiftalways", "penalty", "shortstep", "bo", "growth",
                  "lowres"]),
    ("fault", ["none", "obj_nan0", "obj_pinf2", "obj_ninf4", "obj_huge1", "con_nan3", "con_pinf0", "con_ninf5"]),
    ("ftol", [None, 0.0, 0.25, 2.0 ** 40]),
    ("scribble", [False, True]),
    # exactly scaled copies of the problem (powers of two): variables, objective, constraints, objective offset
    ("xscale", [1.0, 2.0 ** -20, 2.0 ** 20]),
    ("fscale", [1.0, 2.0 ** -40, 2.0 ** 40]),
    ("cscale", [1.0, 2.0 ** -30, 2.0 ** 30]),
    ("foffset", [0.0, 2.0 ** 30]),
]


def _tuples(t):
    names = [f for f, _ in FACTORS]
    out = set()
    for combo in itertools.combinations(range(len(FACTORS)), t):
        for vals in itertools.product(*[range(len(FACTORS[i][1])) for i in combo]):
            out.add((combo, vals))
    return out


def build_array(t):
    """Greedy deterministic construction; returns a list of rows (tuples of level indices)."""
    nf = len(FACTORS)
    levels = [len(v) for _, v in FACTORS]
    uncovered = _tuples(t)
    rows = []
    order = sorted(uncovered)
    pos = 0
    while uncovered:
        while order[pos] not in uncovered:
            pos += 1
        combo, vals = order[pos]
        row = [None] * nf
        for i, v in zip(combo, vals):
            row[i] = v
        # fill the remaining factors, most levels first
        rest = sorted([i for i in range(nf) if row[i] is None], key=lambda i: -levels[i])
        for i in rest:
            fixed = [j for j in range(nf) if row[j] is not None]
            best, bestc = 0, -1
            for lv in range(levels[i]):
                c = 0
                for others in itertools.combinations(fixed, t - 1):
                    idx = tuple(sorted(others + (i,)))
                    vv = tuple(lv if k == i else row[k] for k in idx)
                    if (idx, vv) in uncovered:
                        c += 1
                if c > bestc:
                    best, bestc = lv, c
            row[i] = best
        for combo2 in itertools.combinations(range(nf), t):
            uncovered.discard((combo2, tuple(row[k] for k in combo2)))
        rows.append(tuple(row))
    # the guarantee
    left = _tuples(t)
    for row in rows:
        for combo2 in itertools.combinations(range(nf), t):
            left.discard((combo2, tuple(row[k] for k in combo2)))
    assert not left, "covering array incomplete"
    return rows


def _spec_hash():
    import hashlib
    return hashlib.sha1(json.dumps(FACTORS, default=str).encode()).hexdigest()[:12]


def rows(t):
    path = os.path.join(os.path.dirname(os.path.abspath(__file__)), f"cover_t{t}.json")
    if os.path.exists(path):
        with open(path) as fh:
            data = json.load(fh)
        if data.get("spec") == _spec_hash():
            return [tuple(r) for r in data["rows"]]
    r = build_array(t)
    try:
        with open(path, "w") as fh:
            json.dump({"spec": _spec_hash(), "t": t, "rows": [list(x) for x in r]}, fh)
    except OSError:
        pass
    return r


def case_of(row):
    f = {name: lv[idx] for (name, lv), idx in zip(FACTORS, row)}
    n = f["n"]
    box = f["box"]
    if box == "free":
        pats = ("free",) * n
    elif box == "wide":
        pats = ("wide",) * n
    elif box == "odd":
        pats = ("oddw", "oddn", "oddw")[:n]
    elif box == "lo":
        pats = ("lo",) + ("wide",) * (n - 1)
    elif box == "narrow":
        pats = ("narrow",) + ("up",) * (n - 1)
    elif box == "big":
        pats = ("big",) * n
    elif box == "fixwide":
        pats = ("fixed",) + ("wide",) * (n - 1)
    else:
        pats = ("wide",) * (n - 1) + ("fixulp",)
    nfree = sum(1 for p in pats if p not in alpha.FIXED_PATS)
    cons = f["cons"]
    form = "nlc"
    cs = None
    if cons == "dict_ineq":
        cs = [alpha.constraint("ball_ge", n, form="dict_ineq")]
    elif cons == "dict_eq_args":
        c1 = alpha.constraint("ball_eq", n, form="dict_eq")
        c1["args"] = [0.25]
        c2 = alpha.constraint("ball_ge", n, form="dict_ineq")
        c2["args"] = [-0.125]
        cs = [c2, c1]
    obj = f["obj"]
    nan = None
    if obj == "quad_nan":
        obj, nan = "quad", "half"
    elif obj == "quad_nan_out":
        obj, nan = "quad", "outball"
    opts = {"scale": f["scale"], "maxfev": f["maxfev"], "disp": f["disp"], "debug": f["debug"]}
    if nfree > 0:
        opts["nb_points"] = {"min": nfree + 1, "minplus1": min(nfree + 2, (nfree + 1) * (nfree + 2) // 2),
                             "default": 2 * nfree + 1, "max": (nfree + 1) * (nfree + 2) // 2}[f["npt"]]
    if f["maxiter"]:
        opts["maxiter"] = f["maxiter"]
    if f["target"] is not None:
        opts["target"] = f["target"]
    if f["filter"]:
        opts["filter_size"] = f["filter"]
    if f["history"] != "off":
        opts["store_history"] = True
        if f["history"] == "size2":
            opts["history_size"] = 2
        elif f["history"] == "size1":
            opts["history_size"] = 1
    rad = f["radius"]
    if rad == "half":
        opts.update(radius_init=0.5, radius_final=0.25)
    elif rad == "tiny0":
        opts.update(radius_init=2.0 ** -10, radius_final=0.0)
    elif rad == "huge":
        opts.update(radius_init=2.0 ** 20, radius_final=2.0 ** 10)
    elif rad == "big":
        opts.update(radius_init=2.0, radius_final=2.0 ** -7)
    if f["ftol"] is not None:
        opts["feasibility_tol"] = f["ftol"]
    consts = {"default": {}, "slowshrink": {"decrease_radius_factor": 0.875},
              "ratios": {"low_ratio": 0.25, "high_ratio": 0.5}, "notcg": {"improve_tcg": False},
              "shiftalways": {"large_shift_factor": 0.0},
              "penalty": {"penalty_increase_threshold": 1.0, "penalty_increase_factor": 1.5},
              "shortstep": {"short_step_threshold": 0.875, "resolution_factor": 1.25},
              "bo": {"byrd_omojokun_factor": 0.25, "low_radius_factor": 0.875},
              "growth": {"increase_radius_factor": 4.0, "increase_radius_threshold": 1.5},
              "lowres": {"decrease_resolution_factor": 0.5, "moderate_resolution_threshold": 1.5,
                         "large_resolution_threshold": 2.0}}[f["constant"]]
    cb = {"none": None, "xk": {"sig": "xk", "behav": "passive"}, "ir": {"sig": "ir", "behav": "passive"},
          "stop1": {"sig": "ir", "behav": "stop", "k": 1}, "stop3": {"sig": "xk", "behav": "stop", "k": 3}, "stop9": {"sig": "ir", "behav": "stop", "k": 9},
          "nanwrite": {"sig": "xk", "behav": "nanwrite"}}[f["callback"]]
    case = alpha.base_case(n, pats, f["x0"], obj, cs if cs is not None else cons, form=form, options=opts, nan=nan,
                           callback=cb, constants=consts)
    if f["scribble"]:
        case["scribble"] = True
    fault = f["fault"]
    if fault != "none":
        who, what = fault.split("_")
        alt, k = what[:-1], int(what[-1])
        if who == "obj":
            case["dev"] = [["obj", k, alt]]
        else:
            nl = [c for c in case["cons"] if c["kind"] == "nl"]
            if nl:
                j = len(nl) - 1  # the functions of the nonlinear constraints are numbered among themselves
                comp = (k % len(nl[j]["funs"]))
                case["dev"] = [[f"con{j}", k, [alt, comp]]]
    apply_scales(case, f["xscale"], f["fscale"], f["cscale"], f["foffset"])
    case["tag"]["cover"] = {k: (v if not isinstance(v, float) else float(v)) for k, v in f.items()}
    case["explore"] = 0
    return case


def apply_scales(case, xs, fs, cs, fo):
    """Exactly scaled copy of a case: variables x xs, objective x fs + fo, constraints x cs."""
    if xs != 1.0:
        if case.get("bounds") is not None:
            case["bounds"]["lb"] = [v * xs for v in case["bounds"]["lb"]]
            case["bounds"]["ub"] = [v * xs for v in case["bounds"]["ub"]]
        case["x0"] = [v * xs for v in case["x0"]]
    if case["obj"]["kind"] != "none":
        if xs != 1.0:
            case["obj"]["xs"] = xs
        if fs != 1.0:
            case["obj"]["mul"] = fs
        if fo != 0.0:
            case["obj"]["add"] = fo
        if "target" in case["options"]:
            case["options"]["target"] = case["options"]["target"] * fs + fo
    for c in case["cons"]:
        if c["kind"] == "lin":
            c["A"] = [[v / xs * cs for v in row] for row in c["A"]]
            c["lb"] = [v * cs for v in c["lb"]]
            c["ub"] = [v * cs for v in c["ub"]]
        else:
            for fn in c["funs"]:
                if xs != 1.0:
                    fn["xs"] = xs
                if cs != 1.0:
                    fn["mul"] = cs
            c["lb"] = [v * cs for v in c["lb"]]
            c["ub"] = [v * cs for v in c["ub"]]
            if "args" in c:
                c["args"] = [v * cs for v in c["args"]]
            if "shift" in c:
                c["shift"] = c["shift"] * cs


def cases(t=3):
    return [case_of(r) for r in rows(t)]


def roots_for(tier, monitors=(), linear_ok=True, explore_thorough=0):
    """The cross-feature cases as roots of a property check: the 3-way and the 4-way covering arrays
    (both tiers; the 3-way cases with deviations in thorough)."""
    out = []
    seen = set()
    strengths = (3, 4)
    for t in strengths:
        for r in rows(t):
            if r in seen:
                continue
            seen.add(r)
            c = case_of(r)
            if not linear_ok and any(k["kind"] == "lin" for k in c["cons"]):
                continue
            c["monitors"] = list(monitors)
            c["explore"] = explore_thorough if (tier == "thorough" and t == 3 and c["options"]["maxfev"] <= 25) else 0
            c["tag"] = dict(c["tag"], part="cross-feature" if t == 3 else "cross-feature-4way")
            out.append(c)
    return out
