"""Engine E2 (opseq): explicit-state breadth-first search over operation
sequences on real component objects, level-synchronous and parallel.

A client module provides

    initial()                 -> list of (key, state)
    expand(state)             -> list of (op, key, newstate, violations)   # real object advanced by one op
    conform(state)            -> list of violations                        # optional: replay from scratch

States are pure data (picklable); ``key`` is the canonical form used for
de-duplication (never rounds floats: it can only be too fine).
"""
import multiprocessing
import time

from . import common

_CLIENT = None


def _expand_chunk(chunk):
    out = []
    for st in chunk:
        try:
            out.append(("ok", _CLIENT.expand(st)))
        except BaseException:  # noqa
            import traceback

            out.append(("err", (st, traceback.format_exc(limit=10))))
    return out


def _conform_chunk(chunk):
    out = []
    for st in chunk:
        try:
            out.append(("ok", _CLIENT.conform(st)))
        except BaseException:  # noqa
            import traceback

            out.append(("err", (st, traceback.format_exc(limit=10))))
    return out


def bfs(client, max_depth, max_states=None, conform_every=0, nproc=None, time_cap=None, conform_depth=2):
    """Returns dict(states, transitions, depth_completed, exhaustive, viol,
    errors, conformed, per_depth, samples)."""
    global _CLIENT
    _CLIENT = client
    nproc = nproc or common.NPROC
    t0 = time.time()
    seen = {}
    frontier = []
    for key, st in client.initial():
        if key not in seen:
            seen[key] = 0
            frontier.append(st)
    res = {"states": len(seen), "transitions": 0, "depth_completed": 0, "exhaustive": False,
           "viol": [], "errors": [], "conformed": 0, "per_depth": [len(frontier)], "samples": [],
           "capped": None, "flags": {}}
    ctx = multiprocessing.get_context("fork")
    pool = ctx.Pool(nproc) if nproc > 1 else None
    conf_counter = 0
    try:
        depth = 0
        while frontier and depth < max_depth:
            depth += 1
            chunks = _chunks(frontier, nproc)
            it = pool.imap_unordered(_expand_chunk, chunks) if pool else map(_expand_chunk, chunks)
            nxt = []
            to_conform = []
            for part in it:
                for tag, payload in part:
                    if tag == "err":
                        res["errors"].append(payload)
                        continue
                    for op, key, newst, viol in payload:
                        res["transitions"] += 1
                        res["viol"].extend(viol)
                        if key is None:
                            continue
                        if key not in seen:
                            seen[key] = depth
                            nxt.append(newst)
                            for fl in (newst.get("flags") or []) if isinstance(newst, dict) else []:
                                res["flags"][fl] = res["flags"].get(fl, 0) + 1
                            conf_counter += 1
                            if conform_every and (depth <= conform_depth or conf_counter % conform_every == 0):
                                to_conform.append(newst)
                            if len(res["samples"]) < 40 and conf_counter % 97 == 1:
                                res["samples"].append(newst)
            if to_conform and hasattr(client, "conform"):
                chunks = _chunks(to_conform, nproc)
                it = pool.imap_unordered(_conform_chunk, chunks) if pool else map(_conform_chunk, chunks)
                for part in it:
                    for tag, payload in part:
                        if tag == "err":
                            res["errors"].append(payload)
                        else:
                            res["conformed"] += 1
                            res["viol"].extend(payload)
            res["per_depth"].append(len(nxt))
            res["depth_completed"] = depth
            res["states"] = len(seen)
            frontier = nxt
            if max_states and len(seen) > max_states:
                res["capped"] = f"state cap {max_states} exceeded after depth {depth}"
                break
            if time_cap and time.time() - t0 > time_cap:
                res["capped"] = f"time cap {time_cap}s reached after depth {depth}"
                break
        if not frontier:
            res["exhaustive"] = True
    finally:
        if pool:
            pool.close()
            pool.join()
    return res


def _chunks(seq, nproc):
    n = max(1, min(len(seq), nproc * 8))
    size = (len(seq) + n - 1) // n
    return [seq[i:i + size] for i in range(0, len(seq), size)]
