"""C10 - equivalent statements of a problem are solved identically (differential / metamorphic)."""
import copy
import itertools

import numpy as np

from .. import alpha, common, e1, oracles

ID = "C10"
LEVEL = "exploration"
INF = alpha.INF
EPS = float(np.finfo(float).eps)
ASSUMPTIONS = [
    "differential oracle on pairs of executions; data are dyadic so that both members perform identical "
    "floating-point operations and bit equality can be demanded of the evaluated points",
    "the hand-made counterpart is built in the most favourable row order (upper limits first for linear, lower first "
    "for nonlinear constraints; regrouping only of same-side limits), since the statement promises equivalence "
    "'without reordering'",
    "hand elimination of fixed variables evaluates the same expression on the embedded point; the hand-rescaled "
    "problem evaluates the functions on clip(s*z+m, lb, ub)",
    "maxcv of the two members may differ by rounding of the linear parts (100*eps*magnitude)",
]
RULE = ("pairs (i) every non-empty proper subset of variables fixed by equal bounds vs the hand-reduced problem "
        "(n=2,3) x {no, linear <=, linear =, nonlinear, both}; (ii) Bounds vs (n,2) array; (iii) dict vs "
        "NonlinearConstraint; (iv) one two-sided vs two one-sided constraints (linear, nonlinear); (v) regrouping "
        "same-side constraints into one object; (vi) scale=True vs the explicitly rescaled unit-box problem; "
        "(vii) NaN vs infinite limits; each over objectives {quadratic, non-smooth} and x0 {inside, outside}; plus "
        "the internal linear residuals against the user's residuals at every evaluated point. Non-trivial = pair "
        "whose runs reach the main loop; distinct = distinct pair.")
FIXV = 0.5


def reduce_case(A, fixed_idx):
    """Hand elimination of the variables fixed at FIXV."""
    n = A["n"]
    free = [i for i in range(n) if i not in fixed_idx]
    B = copy.deepcopy(A)
    B["n"] = len(free)
    B["x0"] = [A["x0"][i] for i in free]
    B["bounds"] = {"form": A["bounds"]["form"], "lb": [A["bounds"]["lb"][i] for i in free],
                   "ub": [A["bounds"]["ub"][i] for i in free]}
    fixv = [float(A["bounds"]["lb"][i]) for i in fixed_idx]  # the fixed values (0.5 in the unscaled alphabet)
    B["xmap"] = {"kind": "embed", "n_full": n, "fixed": {str(i): v for i, v in zip(fixed_idx, fixv)}}
    cons = []
    for c in A["cons"]:
        c = copy.deepcopy(c)
        if c["kind"] == "lin":
            Am = np.array(c["A"], float)
            shift = Am[:, fixed_idx] @ np.array(fixv)
            c["A"] = Am[:, free].tolist()
            c["lb"] = (np.array(c["lb"], float) - shift).tolist()
            c["ub"] = (np.array(c["ub"], float) - shift).tolist()
        cons.append(c)
    B["cons"] = cons
    return B


def rescale_case(A):
    lb = np.array(A["bounds"]["lb"], float)
    ub = np.array(A["bounds"]["ub"], float)
    s = 0.5 * (ub - lb)
    m = 0.5 * (ub + lb)
    B = copy.deepcopy(A)
    B["options"] = dict(A["options"], scale=False)
    B["bounds"] = {"form": "Bounds", "lb": [-1.0] * A["n"], "ub": [1.0] * A["n"]}
    x0 = np.clip(np.array(A["x0"], float), lb, ub)
    B["x0"] = ((x0 - m) / s).tolist()
    B["xmap"] = {"kind": "affine", "s": s.tolist(), "m": m.tolist(), "lb": lb.tolist(), "ub": ub.tolist()}
    cons = []
    for c in A["cons"]:
        c = copy.deepcopy(c)
        if c["kind"] == "lin":
            Am = np.array(c["A"], float)
            c["A"] = (Am @ np.diag(s)).tolist()
            c["lb"] = (np.array(c["lb"], float) - Am @ m).tolist()
            c["ub"] = (np.array(c["ub"], float) - Am @ m).tolist()
        cons.append(c)
    B["cons"] = cons
    return B


def roots(tier, seed):
    out = []
    cap = {"maxfev": 60} if tier == "quick" else {"maxfev": 300}

    def pair(kind, A, B, **kw):
        out.append(dict(pair=kind, A=A, B=B, **kw))

    for obj in ["quad", "abs"]:
        for where in ["in", "out"]:
            # (i) fixed subsets
            for n in (2, 3):
                for r in range(1, n):
                    for fixed in itertools.combinations(range(n), r):
                        for freepat in ["wide", "free"]:
                            pats = tuple("fixed" if i in fixed else freepat for i in range(n))
                            for cons in ["none", "lin_le", "lin_eq", "ball_le", "lin+nl", "cubic_le"]:
                                if tier == "quick" and n == 3 and (freepat == "free" or cons in ("lin_eq", "cubic_le")):
                                    continue
                                A = alpha.base_case(n, pats, where, obj, cons, options=dict(cap))
                                pair("fixed-vs-reduced", A, reduce_case(A, list(fixed)))
                                if freepat == "wide":
                                    # the same with scaling in both members, and against the problem that is
                                    # reduced *and* rescaled by hand
                                    As = alpha.base_case(n, pats, where, obj, cons, options=dict(cap, scale=True))
                                    Bs = reduce_case(As, list(fixed))
                                    pair("fixed-vs-reduced:scaled", As, Bs)
                                    Br = rescale_case(Bs)
                                    Br["xmap"] = {"kind": "chain", "maps": [Br["xmap"], Bs["xmap"]]}
                                    pair("fixed+scale-vs-reduced+rescaled", As, Br)
            for n in (1, 2):
                pats = ("wide",) * n
                for cons in ["none", "lin_le", "ball_le", "lin+nl"]:
                    # (ii) bounds forms
                    A = alpha.base_case(n, pats, where, obj, cons, options=dict(cap))
                    B = copy.deepcopy(A)
                    B["bounds"]["form"] = "array"
                    pair("bounds-forms", A, B)
                    # (vi) scaling
                    for sc_cons in [cons]:
                        A = alpha.base_case(n, pats, where, obj, sc_cons, options=dict(cap, scale=True))
                        pair("scale-vs-rescaled", A, rescale_case(A))
                # (iii) dict vs NonlinearConstraint
                for ckind, form in [("ball_ge", "dict_ineq"), ("ball_eq", "dict_eq")]:
                    for pats2 in [("free",) * n, pats]:
                        A = alpha.base_case(n, pats2, where, obj, [alpha.constraint(ckind, n)], options=dict(cap))
                        B = copy.deepcopy(A)
                        B["cons"][0]["form"] = form
                        pair("dict-vs-nlc", A, B)
                # (iii') several dict constraints carrying different args vs the same functions with the value baked in
                for pats2 in [("free",) * n, pats]:
                    A = alpha.base_case(n, pats2, where, obj,
                                        [alpha.constraint("ball_ge", n), alpha.constraint("ball_ge", n),
                                         alpha.constraint("ball_eq", n)], options=dict(cap))
                    A["cons"][0]["shift"] = 0.5
                    A["cons"][1]["shift"] = -0.125
                    A["cons"][1]["funs"][0]["c"] = [0.25] * n
                    A["cons"][2]["shift"] = 0.25
                    B = copy.deepcopy(A)
                    for c, form in zip(B["cons"], ["dict_ineq", "dict_ineq", "dict_eq"]):
                        c["form"] = form
                        c["args"] = [c.pop("shift")]
                    pair("dict-args-vs-nlc", A, B)
                # (iv) two-sided vs two one-sided
                for pats2 in [("free",) * n, pats]:
                    A = alpha.base_case(n, pats2, where, obj, [alpha.constraint("lin_two", n)], options=dict(cap))
                    B = copy.deepcopy(A)
                    c = B["cons"][0]
                    B["cons"] = [dict(c, lb=[-INF], ub=c["ub"]), dict(c, lb=c["lb"], ub=[INF])]
                    pair("two-sided-vs-split:linear", A, B)
                    A = alpha.base_case(n, pats2, where, obj, [alpha.constraint("ball_two", n)], options=dict(cap))
                    B = copy.deepcopy(A)
                    c = B["cons"][0]
                    B["cons"] = [dict(copy.deepcopy(c), lb=c["lb"], ub=[INF]), dict(copy.deepcopy(c), lb=[-INF], ub=c["ub"])]
                    pair("two-sided-vs-split:nonlinear", A, B)
                    # (v) regrouping same-side objects
                    A = alpha.base_case(n, pats2, where, obj, [alpha.constraint("lin_le", n), alpha.constraint("lin_two", n)],
                                        options=dict(cap))
                    A["cons"][1]["lb"] = [-INF]
                    B = copy.deepcopy(A)
                    B["cons"] = [{"kind": "lin", "A": A["cons"][0]["A"] + A["cons"][1]["A"],
                                  "lb": [-INF, -INF], "ub": A["cons"][0]["ub"] + A["cons"][1]["ub"]}]
                    pair("regroup:linear", A, B)
                    # an equality row and a two-sided row: separate objects vs one object mixing both kinds
                    A = alpha.base_case(n, pats2, where, obj, [alpha.constraint("lin_eq", n), alpha.constraint("lin_two", n)],
                                        options=dict(cap))
                    B = copy.deepcopy(A)
                    B["cons"] = [{"kind": "lin", "A": A["cons"][0]["A"] + A["cons"][1]["A"],
                                  "lb": A["cons"][0]["lb"] + A["cons"][1]["lb"],
                                  "ub": A["cons"][0]["ub"] + A["cons"][1]["ub"]}]
                    pair("regroup:linear-mixed", A, B)
                    A = alpha.base_case(n, pats2, where, obj, [alpha.constraint("ball_eq", n), alpha.constraint("nl_aff_le", n)],
                                        options=dict(cap))
                    B = copy.deepcopy(A)
                    B["cons"] = [{"kind": "nl", "form": "nlc", "funs": A["cons"][0]["funs"] + A["cons"][1]["funs"],
                                  "lb": A["cons"][0]["lb"] + A["cons"][1]["lb"],
                                  "ub": A["cons"][0]["ub"] + A["cons"][1]["ub"]}]
                    pair("regroup:nonlinear-mixed", A, B)
                    A = alpha.base_case(n, pats2, where, obj, "two_nl", options=dict(cap))
                    B = copy.deepcopy(A)
                    B["cons"] = [{"kind": "nl", "form": "nlc", "funs": A["cons"][0]["funs"] + A["cons"][1]["funs"],
                                  "lb": [-INF, -INF], "ub": A["cons"][0]["ub"] + A["cons"][1]["ub"]}]
                    pair("regroup:nonlinear", A, B)
                    # (vii) NaN vs infinite limits
                    A = alpha.base_case(n, pats2, where, obj, [alpha.constraint("ball_le", n), alpha.constraint("lin_le", n)],
                                        options=dict(cap))
                    B = copy.deepcopy(A)
                    B["cons"][0]["lb"] = [alpha.NAN]
                    B["cons"][1]["lb"] = [alpha.NAN]
                    pair("nan-vs-inf-limits", A, B)
    out += cover_pairs(tier)
    return alpha.permute(out, seed)


def cover_pairs(tier):
    """The restatements that apply to a cross-feature case (mc/cover.py), applied to every such case: the 3-way
    array in quick, the 3-way and 4-way arrays in thorough."""
    from .. import cover
    out = []
    for A in cover.roots_for(tier):
        if tier == "quick" and A["tag"]["part"] != "cross-feature":
            continue
        f = A["tag"]["cover"]
        A = {k: v for k, v in A.items() if k not in ("explore", "monitors")}
        con_fault = any(str(d[0]).startswith("con") for d in A.get("dev", []))

        def pair(kind, B):
            out.append({"pair": kind, "A": A, "B": B, "cover": True})

        # (ii) bounds forms
        if A.get("bounds") is not None and A["bounds"].get("form") == "Bounds":
            B = copy.deepcopy(A)
            B["bounds"]["form"] = "array"
            pair("bounds-forms", B)
        # (vii) NaN instead of infinite limits
        if any(c.get("form", "nlc") == "nlc" and any(abs(v) == INF for v in list(c["lb"]) + list(c["ub"]))
               for c in A["cons"]):
            B = copy.deepcopy(A)
            for c in B["cons"]:
                if c.get("form", "nlc") == "nlc":
                    c["lb"] = [alpha.NAN if v == -INF else v for v in c["lb"]]
                    c["ub"] = [alpha.NAN if v == INF else v for v in c["ub"]]
            pair("nan-vs-inf-limits", B)
        # (iii) dict constraints (with args) vs NonlinearConstraint objects (value baked in)
        if any(c.get("form") in ("dict_ineq", "dict_eq") for c in A["cons"]):
            B = copy.deepcopy(A)
            for c in B["cons"]:
                if c.get("form") in ("dict_ineq", "dict_eq"):
                    c["form"] = "nlc"
                    if "args" in c:
                        c["shift"] = c.pop("args")[0]
            pair("dict-args-vs-nlc" if f["cons"] == "dict_eq_args" else "dict-vs-nlc", B)
        # (iv) two-sided vs two one-sided
        if f["cons"] == "ball_two" and not con_fault:
            B = copy.deepcopy(A)
            c = B["cons"][0]
            B["cons"] = [dict(copy.deepcopy(c), lb=c["lb"], ub=[INF]), dict(copy.deepcopy(c), lb=[-INF], ub=c["ub"])]
            pair("two-sided-vs-split:nonlinear", B)
        if f["cons"] == "lin_mixed":
            B = copy.deepcopy(A)
            c = B["cons"][0]
            B["cons"] = [{"kind": "lin", "A": [c["A"][0]], "lb": [c["lb"][0]], "ub": [c["ub"][0]]},
                         {"kind": "lin", "A": [c["A"][1]], "lb": [-INF], "ub": [c["ub"][1]]},
                         {"kind": "lin", "A": [c["A"][1]], "lb": [c["lb"][1]], "ub": [INF]}]
            pair("two-sided-vs-split:linear", B)
        # (v) regrouping
        if f["cons"] == "two_nl" and not con_fault:
            B = copy.deepcopy(A)
            B["cons"] = [{"kind": "nl", "form": "nlc", "funs": A["cons"][0]["funs"] + A["cons"][1]["funs"],
                          "lb": [-INF, -INF], "ub": A["cons"][0]["ub"] + A["cons"][1]["ub"]}]
            pair("regroup:nonlinear", B)
        # (vi) scaling, (i) fixed variables
        if f["scale"] and f["box"] in ("wide", "big"):
            pair("scale-vs-rescaled", rescale_case(A))
        if f["box"] == "fixwide" and A["n"] >= 2:
            Bf = reduce_case(A, [0])
            pair("fixed-vs-reduced:scaled" if f["scale"] else "fixed-vs-reduced", Bf)
            if f["scale"]:
                Br = rescale_case(Bf)
                Br["xmap"] = {"kind": "chain", "maps": [Br["xmap"], Bf["xmap"]]}
                pair("fixed+scale-vs-reduced+rescaled", Br)
    return out


def canon_points(rec):
    pts = []
    for p, calls in e1.eval_groups(rec):
        x = None
        for c in calls:
            if c["fid"] != "cb" and c["xshape"] == (rec.case["n"],):
                x = e1.xmap(rec.case, c["x"])
                break
        if x is None and rec.pb is not None:
            x = e1.xmap(rec.case, np.asarray(rec.pb.build_x(p["x"]), float))
        pts.append(x)
    return pts


def residual_check(rec, stats):
    """pb.linear residuals against the user's residuals at every evaluated point."""
    pb = rec.pb
    if pb is None or rec.case.get("xmap") is not None:
        return None
    lin = [c for c in rec.case.get("cons", []) if c["kind"] == "lin"]
    if not lin:
        return None
    for p, calls in e1.eval_groups(rec):
        ux = None
        for c in calls:
            if c["fid"] != "cb" and c["xshape"] == (rec.case["n"],):
                ux = c["x"]
                break
        if ux is None or p["x"].shape != (pb.n,):
            continue
        want = []
        mag = 1.0
        for c in lin:
            A = np.atleast_2d(np.array(c["A"], float))
            v = A @ ux
            mag = max(mag, float(np.max(np.abs(A) @ np.abs(ux))))
            for i in range(len(v)):
                lo, hi = c["lb"][i], c["ub"][i]
                if lo == hi:
                    want.append(("eq", v[i] - lo))
                else:
                    if hi < INF:
                        want.append(("ub", v[i] - hi))
                    if lo > -INF:
                        want.append(("ub", lo - v[i]))
        got_ub = sorted((pb.linear.a_ub @ p["x"] - pb.linear.b_ub).tolist())
        got_eq = sorted((pb.linear.a_eq @ p["x"] - pb.linear.b_eq).tolist())
        w_ub = sorted(r for k, r in want if k == "ub")
        w_eq = sorted(r for k, r in want if k == "eq")
        stats["residual_points"] = stats.get("residual_points", 0) + 1
        tol = 100 * EPS * (rec.case["n"] + 2) * mag
        if len(got_ub) != len(w_ub) or len(got_eq) != len(w_eq) or \
                any(abs(a - b) > tol for a, b in zip(got_ub, w_ub)) or any(abs(a - b) > tol for a, b in zip(got_eq, w_eq)):
            return {"key": "linear-residuals-differ",
                    "what": f"internal linear residuals {got_ub}/{got_eq} differ from the user's {w_ub}/{w_eq} at "
                            f"x={ux.tolist()}"}
    return None


def run_case(root):
    stats = {"pairs": 1, "runs": 2}
    viol = []
    A, B = root["A"], root["B"]
    ra, rb = e1.run(A), e1.run(B)
    kind = root["pair"]
    stats["pair_" + kind] = 1

    def add(key, what):
        viol.append({"key": f"{key}:{kind}", "what": f"[{kind}] " + what, "case": root})

    if ra.exc is not None or rb.exc is not None:
        if (ra.exc is None) != (rb.exc is None):
            add("one-member-raises", f"exceptions: {ra.exc} vs {rb.exc}")
        return {"viol": viol, "stats": stats}
    a, b = ra.res, rb.res
    pa, pb_ = canon_points(ra), canon_points(rb)
    if any(p["kind"] in ("tr", "soc", "geo") for p in ra.pcalls):
        stats["nontrivial_pairs"] = 1
    if (int(a.status), int(a.nfev), int(a.nit)) != (int(b.status), int(b.nfev), int(b.nit)):
        add("outcome-differs", f"(status, nfev, nit) = {(int(a.status), int(a.nfev), int(a.nit))} vs "
                               f"{(int(b.status), int(b.nfev), int(b.nit))}")
    else:
        for i, (x, y) in enumerate(zip(pa, pb_)):
            if x is None or y is None or not e1.same_bits(x, y):
                add("evaluation-sequence-differs", f"evaluation {i + 1}: {None if x is None else x.tolist()} vs "
                                                   f"{None if y is None else y.tolist()}")
                break
        else:
            xa = np.asarray(a.x, float)
            xb = e1.xmap(B, np.asarray(b.x, float))
            if not e1.same_bits(xa, xb) or not e1.feq(a.fun, b.fun):
                add("result-differs", f"x={xa.tolist()} fun={a.fun} vs x={xb.tolist()} fun={b.fun}")
            else:
                tol = 100 * EPS * max(1.0, abs(float(a.maxcv))) * (A["n"] + 2) * 8
                if not (float(a.maxcv) == float(b.maxcv) or abs(float(a.maxcv) - float(b.maxcv)) <= tol
                        or (a.maxcv != a.maxcv and b.maxcv != b.maxcv)):
                    add("maxcv-differs", f"maxcv {a.maxcv} vs {b.maxcv}")
    for rec in (ra, rb):
        v = residual_check(rec, stats)
        if v:
            v["case"] = root
            viol.append(v)
            break
    return {"viol": viol, "stats": stats}


def coverage(agg, tier, roots_):
    s = agg.stats
    kinds = ["fixed-vs-reduced", "fixed-vs-reduced:scaled", "fixed+scale-vs-reduced+rescaled", "bounds-forms", "scale-vs-rescaled", "dict-vs-nlc", "dict-args-vs-nlc", "two-sided-vs-split:linear",
             "two-sided-vs-split:nonlinear", "regroup:linear", "regroup:nonlinear", "regroup:linear-mixed", "regroup:nonlinear-mixed", "nan-vs-inf-limits"]
    herr = [f"no pair of kind {k}" for k in kinds if not s.get("pair_" + k)]
    if not s.get("residual_points"):
        herr.append("no linear residual compared")
    cov = {"evaluations": int(s.get("runs", 0)), "distinct_nontrivial": int(s.get("nontrivial_pairs", 0)),
           "rule": RULE, "exhaustive": True, "roots": len(roots_),
           "non_vacuity": {k: int(v) for k, v in sorted(s.items())},
           "samples": [{"pair": r["pair"], "A": r["A"]["tag"], "B_xmap": r["B"].get("xmap")} for r in roots_[:3]]}
    return cov, herr
