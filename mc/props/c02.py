"""C02 - the returned fun and maxcv are the true values at the returned x."""
import numpy as np

from .. import alpha, e1prop, oracles

ID = "C02"
LEVEL = "exploration"
ASSUMPTIONS = [
    "harness log of every (x, f(x), c_j(x)) returned by the user functions is the ground truth",
    "numeric data restricted to the dyadic alphabet; n <= 2 quick, <= 3 thorough",
    "for problems without any user function (fun=None, no nonlinear constraint) the evaluated point is "
    "read through Problem.build_x",
]
RULE = ("complete cross product {scale} x {no/some/all-but-one/all variables fixed, one-sided box, inconsistent box} x "
        "{no, linear, nonlinear, both constraints} x {one-sided, two-sided, equality limits} x {Bounds, array} x "
        "{NonlinearConstraint, dict} x forced termination {natural, target, callback, feasibility, maxfev, maxiter} x "
        "objective {quadratic, NaN-region}; thorough adds one NaN/inf deviation at every evaluation of the nonlinear "
        "slice. Non-trivial = run with a main-loop evaluation or a deviation; distinct = distinct bit-exact observation.")

TERMS = ["natural", "target", "callback", "feasibility", "maxfev", "maxiter"]


def _fix_configs(n):
    if n == 1:
        return {"none": ("wide",), "onesided": ("lo",), "all": ("fixed",), "odd": ("oddw",)}
    if n == 2:
        return {"none": ("wide", "wide"), "some": ("fixed", "wide"), "ulp": ("wide", "fixulp"),
                "onesided": ("lo", "wide"), "all": ("fixed", "fixed"), "odd": ("oddw", "oddn"),
                "oddfix": ("oddn", "fixed")}
    return {"none": ("wide",) * 3, "some": ("fixed", "wide", "wide"), "abo": ("fixed", "fixulp", "wide"),
            "onesided": ("lo", "wide", "up"), "all": ("fixed",) * 3}


CONS = {
    "none": ["none"],
    "lin": ["lin_le", "lin_two", "lin_eq"],
    "nl": ["ball_le", "ball_two", "ball_eq"],
    "both": ["lin+nl", "lin_eq+nl_eq", "lin+cubic"],
}


def _dictable(cs):
    ok = True
    for c in cs:
        if c["kind"] != "nl":
            continue
        if c["lb"] == [0.0] and c["ub"] == [0.0]:
            c["form"] = "dict_eq"
        elif c["lb"] == [0.0] and c["ub"] == [alpha.INF]:
            c["form"] = "dict_ineq"
        else:
            ok = False
    return ok


def roots(tier, seed):
    out = []
    ns = [1, 2] if tier == "quick" else [1, 2, 3]
    for n in ns:
        for fname, pats in _fix_configs(n).items():
            finite = all(np.isfinite(alpha.PATTERNS[p][0]) and np.isfinite(alpha.PATTERNS[p][1]) for p in pats)
            for group, names in CONS.items():
                for cons in names:
                    for scale in ([False, True] if finite and fname != "all" else [False]):
                        for bform in ["Bounds", "array"]:
                            for form in ["nlc", "dict"]:
                                if form == "dict" and group in ("none", "lin"):
                                    continue
                                for term in TERMS:
                                    for obj in ["quad", "quad_nan"]:
                                        if obj == "quad_nan" and (bform == "array" or term in ("maxiter",)):
                                            continue
                                        if fname == "all" and term not in ("natural", "callback", "feasibility"):
                                            continue
                                        cs = alpha.cons_set(cons, n)
                                        if form == "dict":
                                            if cons == "ball_le":
                                                cs = [alpha.constraint("ball_ge", n)]
                                            if not _dictable(cs):
                                                continue
                                        opts = {"scale": scale}
                                        cb = None
                                        okind = "quad"
                                        if term == "target":
                                            opts["target"] = 0.375
                                        elif term == "callback":
                                            cb = {"sig": "xk", "behav": "stop", "k": 1 if fname == "all" else 2 * n + 3}
                                        elif term == "feasibility":
                                            okind = "none"
                                            if obj == "quad_nan":
                                                continue
                                        elif term == "maxfev":
                                            opts["maxfev"] = 2 * n + 4
                                        elif term == "maxiter":
                                            opts["maxiter"] = 3
                                        if tier == "quick" and term in ("natural", "target", "feasibility"):
                                            opts["maxfev"] = opts.get("maxfev", 40 * n)
                                        case = alpha.base_case(n, pats, "in", okind, cs, bform=bform, options=opts,
                                                               nan="half" if obj == "quad_nan" else None,
                                                               callback=cb)
                                        case["tag"].update(cons=cons, form=form, term=term, fix=fname)
                                        dev = tier == "thorough" and group in ("nl", "both") and bform == "Bounds" \
                                            and (term == "maxfev" or (term == "natural" and n <= 2)) and obj == "quad"
                                        if dev and term == "natural":
                                            opts["maxfev"] = 40 * n
                                        case["explore"] = 1 if dev else 0
                                        out.append(case)
        # NaN / inf regions in the *constraint* functions: the reported maxcv must be the raw (NaN) violation
        for cons in ["ball_le", "ball_two", "ball_eq", "nl_vec", "lin+nl"]:
            for reg in ["half", "inball", "outball", "everywhere"]:
                for pats in [("free",) * n, ("wide",) * n]:
                    for term in ["natural", "maxfev"]:
                        opts = {"maxfev": 2 * n + 4} if term == "maxfev" else ({"maxfev": 40 * n} if tier == "quick" else {})
                        case = alpha.base_case(n, pats, "in", "quad", cons, options=opts)
                        for c in case["cons"]:
                            if c["kind"] == "nl":
                                c["funs"][0]["nan"] = alpha.nan_region(reg, n)
                        case["tag"].update(cons=cons, term=term, con_nan=reg)
                        case["explore"] = 0
                        out.append(case)
        # one NaN / inf answer of a constraint at every evaluation of a short run
        for cons in ["ball_le", "ball_two", "nl_vec"]:
            case = alpha.base_case(n, ("wide",) * n, "in", "quad", cons, options={"maxfev": 2 * n + 6})
            case["tag"].update(cons=cons, term="maxfev", part="con-deviation")
            case["explore"] = 1
            out.append(case)
        # inconsistent bounds (status -1), with every kind of constraint
        for cons in ["none", "lin_le", "ball_le", "lin+nl"]:
            for cbk in [None, {"sig": "xk", "behav": "passive"}]:
                case = alpha.base_case(n, ("wide",) * n, "in", "quad", cons, callback=cbk)
                case["bounds"]["lb"][0] = 1.0
                case["bounds"]["ub"][0] = -1.0
                case["tag"].update(term="inconsistent")
                case["explore"] = 0
                out.append(case)
    from .. import cover
    out += cover.roots_for(tier, explore_thorough=1)
    return alpha.permute(out, seed)


def _stats(rec, table, stats):
    if rec.res is not None and float(rec.res.maxcv) != float(rec.res.maxcv):
        stats["nan_maxcv_results"] = stats.get("nan_maxcv_results", 0) + 1


def run_case(case):
    return e1prop.run_case_generic(case, oracles.c02, extra_stats=_stats)


def coverage(agg, tier, roots_):
    need = ["evals_tr", "evals_geo", "status_0", "status_1", "status_3", "status_4", "status_5", "status_6",
            "status_-1", "nan_maxcv_results"]
    return e1prop.coverage_generic(agg, tier, roots_, RULE, need=need,
                                   dev_bound=1 if tier == "thorough" else 0)
