"""C06 - user functions are called once per evaluation, never behind the scenes."""
import numpy as np

from .. import alpha, common, e1, explore

ID = "C06"
LEVEL = "exploration"
ASSUMPTIONS = [
    "user functions are pure functions of the point (harness-owned closures)",
    "Problem.__call__ is the unit of a counted evaluation (wrapped transparently, no source change)",
    "numeric data restricted to the dyadic alphabet of mc/alpha.py; n <= 2 quick, <= 3 thorough",
]
RULE = ("complete cross product {objective, fun=None} x {1..3 nonlinear constraint objects, "
        "scalar/vector, NonlinearConstraint/dict} x {linear constraint or not} x scale x bound patterns "
        "with fixed variables x disp, plus variants whose user functions overwrite the array they receive; thorough adds single NaN/inf deviations at every evaluation. "
        "A case is non-trivial when its run contains at least one main-loop evaluation; distinct = "
        "distinct canonical observation (bit-exact call log + result).")


def roots(tier, seed):
    out = []
    ns = [1, 2] if tier == "quick" else [1, 2, 3]
    for n in ns:
        patsets = [("free",) * n, ("wide",) * n, ("lo",) + ("wide",) * (n - 1)]
        if n >= 2:
            patsets += [("fixed",) + ("wide",) * (n - 1), ("wide",) * (n - 1) + ("fixulp",),
                        ("narrow",) + ("up",) * (n - 1)]
        if n == 3:
            patsets += [("fixed", "wide", "fixed")]
        for pats in patsets:
            finite = all(np.isfinite(alpha.PATTERNS[p][0]) and np.isfinite(alpha.PATTERNS[p][1])
                         for p in pats if p not in alpha.FIXED_PATS)
            for cons in ["ball_le", "ball_eq", "ball_two", "nl_vec", "lin+nl", "two_nl", "three_nl",
                         "lin_eq+nl_eq"]:
                for form in ["nlc", "dict"]:
                    for obj in ["quad", "none"]:
                        for scale in ([False, True] if finite else [False]):
                            for disp in [False, True]:
                                if disp and (scale or obj == "none" or n > 1):
                                    continue
                                cs = alpha.cons_set(cons, n)
                                if form == "dict":
                                    ok = True
                                    for c in cs:
                                        if c["kind"] != "nl":
                                            continue
                                        lb, ub = c["lb"], c["ub"]
                                        if all(l == 0.0 and u == 0.0 for l, u in zip(lb, ub)):
                                            c["form"] = "dict_eq"
                                        elif all(l == 0.0 and u == alpha.INF for l, u in zip(lb, ub)):
                                            c["form"] = "dict_ineq"
                                        elif all(l == -alpha.INF and u == 0.0 for l, u in zip(lb, ub)):
                                            # restate g(x) <= 0 is not expressible without negating; skip
                                            ok = False
                                        else:
                                            ok = False
                                    if not ok or cons in ("nl_vec",):
                                        continue
                                opts = {"scale": scale, "disp": disp}
                                if tier == "quick":
                                    opts["maxfev"] = 60 if n == 1 else 90
                                elif n <= 2 and not disp:
                                    opts["maxfev"] = 50 * n  # deviation roots: one run per (evaluation, answer)
                                case = alpha.base_case(n, pats, "in", obj, cs, options=opts)
                                case["tag"]["cons"] = cons
                                case["tag"]["form"] = form
                                case["explore"] = 1 if (tier == "thorough" and not disp and n <= 2) else 0
                                out.append(case)
                                if not disp and form == "nlc" and cons in ("ball_le", "nl_vec", "two_nl", "lin+nl"):
                                    c2 = dict(case)
                                    c2["scribble"] = True  # user functions overwrite their argument
                                    c2["explore"] = 0
                                    out.append(c2)
    # variables of magnitude 2^27 and a final radius far below their spacing: trial steps vanish in rounding and the
    # same point is evaluated several times in a row - each of them is still one call of the objective
    for n in (1, 2):
        for cons in ["none", "ball_le"]:
            for hist in (False, True):
                off = 2.0 ** 27
                case = alpha.base_case(n, ("free",) * n, "in", "quad", cons,
                                       options={"radius_init": 1.0, "radius_final": 2.0 ** -34, "maxfev": 120,
                                                "store_history": hist})
                case["x0"] = [off] * n
                case["obj"] = {"kind": "quad", "a": [1.0, 2.0][:n], "c": [off + 0.75, off - 1.25][:n]}
                for c in case["cons"]:
                    if c["kind"] == "nl":
                        c["funs"][0]["c"] = [off + 0.5] * n
                        c["funs"][0]["r2"] = 4.0
                case["tag"]["special"] = "huge-offset"
                case["explore"] = 0
                out.append(case)
    from .. import cover
    out += cover.roots_for(tier)
    return alpha.permute(out, seed)


def check(rec):
    """Oracle on the complete call log of one execution."""
    case = rec.case
    viol = []
    n = case["n"]
    has_obj = case["obj"]["kind"] != "none"
    nnl = e1.n_nl(case)
    b = case.get("bounds")
    lb = np.array(b["lb"]) if b else np.full(n, -np.inf)
    ub = np.array(b["ub"]) if b else np.full(n, np.inf)
    fixed = lb == ub

    def add(key, what, **detail):
        viol.append({"key": key, "what": what, "detail": detail})

    # 1. every call point: right shape, inside the box, fixed values held
    for c in rec.calls:
        if c["fid"] == "cb":
            continue
        kind = "obj" if c["fid"] == "obj" else "con"
        if c["xshape"] != (n,):
            add(f"internal-point:{kind}@{c['site']}",
                f"{c['fid']} called with a point of shape {c['xshape']} instead of ({n},) "
                f"(internal reduced variables) from {c['site']}")
            continue
        x = c["x"]
        if np.any(x < lb) or np.any(x > ub) or np.any(x[fixed] != lb[fixed]):
            add(f"outside-box:{kind}@{c['site']}",
                f"{c['fid']} called at {x.tolist()} outside the user's box from {c['site']}")
    # 2. no call outside a counted evaluation
    for c in rec.calls:
        if c["pcall"] is None and c["fid"] != "cb":
            kind = "obj" if c["fid"] == "obj" else "con"
            add(f"outside-eval:{kind}@{c['site']}",
                f"{c['fid']} called outside any evaluation from {c['site']}")
    # 3. per evaluation: objective once, each constraint at most once, same point
    groups = e1.eval_groups(rec)
    last_x = {}
    for p, calls in groups:
        seen = {}
        xref = None
        for c in calls:
            if c["fid"] == "cb":
                continue
            kind = "obj" if c["fid"] == "obj" else "con"
            seen[c["fid"]] = seen.get(c["fid"], 0) + 1
            if seen[c["fid"]] > 1:
                add(f"extra-call:{kind}@{c['site']}",
                    f"{c['fid']} called more than once during evaluation {p['idx'] + 1} from {c['site']}")
                continue
            if xref is None:
                xref = c["x"]
            elif c["xshape"] == (n,) and not e1.same_bits(xref, c["x"]):
                add(f"point-mismatch:{kind}@{c['site']}",
                    f"{c['fid']} evaluated at a different point than the objective in evaluation {p['idx'] + 1}")
        if p["exc"] not in (None, "CallbackSuccess") and not seen:
            continue
        if has_obj and seen.get("obj", 0) == 0 and p["exc"] is None:
            add("missing-obj", f"objective not called during evaluation {p['idx'] + 1}")
        for j in range(nnl):
            fid = f"con{j}"
            if seen.get(fid, 0) == 0 and p["exc"] is None:
                if xref is None or fid not in last_x or not e1.same_bits(last_x[fid], xref):
                    if xref is None and not has_obj and fid in last_x:
                        # feasibility problem: the point is only visible through constraints
                        continue
                    add(f"missing-con", f"{fid} not called during evaluation {p['idx'] + 1}")
        for c in calls:
            if c["fid"] != "cb" and c["xshape"] == (n,):
                last_x[c["fid"]] = c["x"]
    # 4. number of evaluations reported
    if rec.res is not None:
        if int(rec.res.nfev) != len(groups):
            add("nfev-mismatch",
                f"nfev={rec.res.nfev} but {len(groups)} evaluations were performed")
    return viol


def run_case(case):
    stats = {"runs": 0, "evals": 0, "user_calls": 0, "crashed": 0, "main_evals": 0,
             "soc_evals": 0, "geo_evals": 0, "deviated_runs": 0, "repeated_points": 0}
    viol = []
    digests = []
    nontrivial = []
    bound = case.get("explore", 0)
    base = {k: v for k, v in case.items() if k != "explore"}
    for rec in explore.explore(base, bound):
        stats["runs"] += 1
        stats["evals"] += len(rec.pcalls)
        stats["user_calls"] += len(rec.calls)
        stats["deviated_runs"] += 1 if rec.case.get("dev") else 0
        kinds = [p["kind"] for p in rec.pcalls]
        stats["main_evals"] += sum(1 for k in kinds if k in ("tr", "soc", "geo"))
        stats["soc_evals"] += kinds.count("soc")
        stats["geo_evals"] += kinds.count("geo")
        if rec.exc is not None:
            stats["crashed"] += 1
        tops = [p for p in rec.pcalls if p["nested_in"] is None]
        stats["repeated_points"] += sum(1 for a, b in zip(tops, tops[1:]) if e1.same_bits(a["x"], b["x"]))
        d = e1.digest(rec)
        digests.append(d)
        if any(k in ("tr", "soc", "geo") for k in kinds):
            nontrivial.append(d)
        for v in check(rec):
            v["case"] = rec.case
            viol.append(v)
    # keep one violation per key per root
    uniq = {}
    for v in viol:
        uniq.setdefault(v["key"], v)
    return {"viol": list(uniq.values()), "stats": stats, "digests": digests,
            "nontrivial": nontrivial}


def coverage(agg, tier, roots):
    herr = []
    s = agg.stats
    if s.get("main_evals", 0) == 0:
        herr.append("no main-loop evaluation was explored")
    if not s.get("repeated_points"):
        herr.append("no run evaluated the same point twice in a row")
    if s.get("runs", 0) and s.get("crashed", 0) == s.get("runs", 0):
        herr.append("every run crashed")
    cov = {
        "evaluations": int(s.get("runs", 0)),
        "distinct_nontrivial": len(agg.nontrivial),
        "distinct_observations": len(agg.digests),
        "rule": RULE,
        "exhaustive": True,
        "roots": len(roots),
        "problem_evaluations": int(s.get("evals", 0)),
        "user_calls_checked": int(s.get("user_calls", 0)),
        "non_vacuity": {k: int(s.get(k, 0)) for k in
                        ("main_evals", "soc_evals", "geo_evals", "deviated_runs", "crashed")},
        "deviation_bound_completed": 1 if tier == "thorough" else 0,
    }
    return cov, herr
