"""C11 - minimize is deterministic, leaves its arguments untouched and is re-entrant.

(a) repetition (same process twice + fresh process), (b) argument fingerprints before / at every user call /
after, (c) fingerprint of all cobyqa module state after every call, (d) nesting at every evaluation index,
(e) preemption-bounded interleaving of real threads (engine E4).
"""
import hashlib
import json
import os
import subprocess
import sys
import types

import numpy as np
from scipy.optimize import Bounds, LinearConstraint, NonlinearConstraint

from .. import alpha, common, e1, e4

cobyqa = common.bind_repo()

ID = "C11"
REPLAY_ONCE = True
LEVEL = "model_checking"
ASSUMPTIONS = [
    "threads: 2 (3 in thorough) concurrent minimize calls under a cooperative scheduler, preemption bound 1 (2 in "
    "thorough on S1+S2 points); small-scope argument: a conflict needs two calls and one shared location",
    "scheduling points: user-function entry/exit (S1), every line of cobyqa functions flagged by an AST scan of the "
    "working tree for stores through parameters / module-level names / global statements (S2), entry of any cobyqa "
    "function receiving a registered shared user object (S3); C extensions (numpy, scipy, BLAS) run atomically",
    "module-state fingerprint covers module globals, class attributes, function defaults and closure cells of every "
    "cobyqa module (interpreter bookkeeping entries excluded)",
    "user functions are pure; the harness owns them",
]
RULE = ("(a) every alphabet case run twice in-process and once in a fresh process; (b) deep fingerprints of x0, bounds, "
        "constraint arrays, args and options before, at every user-function call and after; (c) module-state "
        "fingerprint after every call; (d) an inner minimize (sharing the outer's bounds and constraint objects) "
        "started from the objective / a constraint / the callback of an outer run at every evaluation index; "
        "(e) all schedules of 2 threads with at most 1 preemption (thorough: 2 preemptions on S1+S2, 3 threads with 1) "
        "in three sharing configurations. states = scheduling points visited, transitions = context switches + steps.")


# ---------------------------------------------------------------------------------------------- fingerprints
def fp(obj, depth=0):
    if depth > 6:
        return "..."
    if isinstance(obj, np.ndarray):
        return ("nd", obj.dtype.str, obj.shape, hashlib.sha1(np.ascontiguousarray(obj).tobytes()).hexdigest()[:12])
    if isinstance(obj, (int, float, str, bool, bytes, type(None), complex)):
        return repr(obj)
    if isinstance(obj, (np.floating, np.integer, np.bool_)):
        return repr(obj.item())
    if isinstance(obj, (list, tuple)):
        return (type(obj).__name__, tuple(fp(v, depth + 1) for v in obj))
    if isinstance(obj, (set, frozenset)):
        return (type(obj).__name__, tuple(sorted(repr(fp(v, depth + 1)) for v in obj)))
    if isinstance(obj, dict):
        return ("dict", tuple((repr(k), fp(v, depth + 1)) for k, v in obj.items()))
    if isinstance(obj, Bounds):
        return ("Bounds", fp(obj.lb), fp(obj.ub), fp(obj.keep_feasible))
    if isinstance(obj, LinearConstraint):
        return ("LinearConstraint", fp(np.asarray(obj.A)), fp(np.asarray(obj.lb)), fp(np.asarray(obj.ub)))
    if isinstance(obj, NonlinearConstraint):
        return ("NonlinearConstraint", id(obj.fun), fp(np.asarray(obj.lb)), fp(np.asarray(obj.ub)), repr(obj.jac)[:40])
    return ("obj", type(obj).__name__)


def args_fp(kw):
    return (fp(kw["x0"]), fp(kw["bounds"]), fp(kw["constraints"]), fp(kw.get("args", ())), fp(kw["options"]),
            id(kw["x0"]), id(kw["bounds"]), id(kw["constraints"]), id(kw["options"]))


SKIP = {"__warningregistry__", "__builtins__", "__cached__", "__loader__", "__spec__", "__doc__", "__file__",
        "__path__", "__package__", "__name__"}


def obj_state(v, depth=0):
    if depth > 4:
        return "..."
    if isinstance(v, types.ModuleType):
        return ("module", v.__name__)
    if isinstance(v, (types.FunctionType,)):
        cells = ()
        if v.__closure__:
            out = []
            for c in v.__closure__:
                try:
                    cv = c.cell_contents
                except ValueError:
                    out.append("empty")
                    continue
                out.append(obj_state(cv, depth + 1) if not isinstance(cv, (types.FunctionType, type)) else
                           ("ref", getattr(cv, "__qualname__", "?")))
            cells = tuple(out)
        return ("function", v.__qualname__, fp(v.__defaults__), fp(v.__kwdefaults__), cells,
                tuple(sorted(v.__dict__)) if v.__dict__ else ())
    if isinstance(v, type):
        items = []
        for k, a in sorted(vars(v).items()):
            if k in SKIP or k in ("__dict__", "__weakref__", "__module__", "__qualname__", "_abc_impl"):
                continue
            if isinstance(a, (staticmethod, classmethod)):
                a = a.__func__
            if isinstance(a, property):
                a = a.fget
            items.append((k, obj_state(a, depth + 1)))
        return ("class", v.__qualname__, tuple(items))
    return fp(v)


def module_state():
    out = []
    for name in sorted(sys.modules):
        if name == "cobyqa" or name.startswith("cobyqa."):
            if ".tests" in name:
                continue
            mod = sys.modules[name]
            items = []
            for k, v in sorted(vars(mod).items()):
                if k in SKIP:
                    continue
                items.append((k, obj_state(v)))
            out.append((name, tuple(items)))
    return hashlib.sha1(repr(out).encode()).hexdigest()


# ---------------------------------------------------------------------------------------------- sequential parts
def seq_roots(tier):
    out = []
    ns = [1, 2] if tier == "quick" else [1, 2, 3]
    for n in ns:
        for pats in [("free",) * n, ("wide",) * n, ("fixed",) + ("wide",) * (n - 1)] if n > 1 else \
                [("free",), ("wide",)]:
            for cons in ["none", "lin_le", "ball_le", "nl_vec", "lin+nl", "cubic_eq"]:
                for scale in ([False, True] if pats[-1] == "wide" else [False]):
                    for disp in [False, True]:
                        if disp and (scale or cons not in ("none", "lin+nl")):
                            continue
                        for bform in ["Bounds", "array"]:
                            if bform == "array" and (cons not in ("none", "ball_le") or disp):
                                continue
                            opts = {"scale": scale, "disp": disp, "maxfev": 40 if tier == "quick" else 150,
                                    "store_history": True}
                            c = alpha.base_case(n, pats, "in", "quad", cons, bform=bform, options=opts,
                                                callback={"sig": "ir", "behav": "passive"})
                            c["args"] = [1.5, "tag"]
                            out.append(c)
        # undefined entries that the solver neutralises internally (NaN bounds / coefficients / limits): the
        # clean-up must happen on private copies
        for bform in ["Bounds", "array"]:
            for cons in ["none", "lin_two", "ball_two"]:
                c = alpha.base_case(n, ("wide",) * n, "in", "quad", cons, bform=bform,
                                    options={"maxfev": 30}, callback={"sig": "xk", "behav": "passive"})
                c["bounds"]["lb"][0] = alpha.NAN
                c["bounds"]["ub"][-1] = alpha.NAN
                for con in c["cons"]:
                    if con["kind"] == "lin":
                        con["A"][0][0] = alpha.NAN
                        con["lb"] = [alpha.NAN]
                    else:
                        con["ub"] = [alpha.NAN]
                c["tag"]["special"] = "nan-entries"
                out.append(c)
    # cross-feature cases (mc/cover.py): the 3-way array in quick, 3-way and 4-way in thorough
    from .. import cover
    for c in cover.roots_for(tier):
        if tier == "quick" and c["tag"]["part"] != "cross-feature":
            continue
        c = {k: v for k, v in c.items() if k not in ("explore", "monitors")}
        out.append(c)
    return out


def run_seq(case):
    """(a) twice in process, (b) argument fingerprints at every user call, (c) module state."""
    viol = []
    stats = {"seq_runs": 0, "fingerprint_points": 0}
    e1.install_spies()
    ms0 = module_state()
    state = {"fp0": None, "bad": None, "n": 0}

    def hook(rec, event, ent):
        if event != "user":
            return
        cur = args_fp(rec.kwargs)
        state["n"] += 1
        if state["fp0"] is not None and cur != state["fp0"] and state["bad"] is None:
            which = [nm for nm, a, b in zip(["x0", "bounds", "constraints", "args", "options"], cur, state["fp0"])
                     if a != b]
            state["bad"] = (ent["fid"], ent["k"], which)

    digs = []
    for rep in range(2):
        state["fp0"] = None
        e1.install_spies()
        rec0 = e1.Rec(case)
        # run() builds kwargs itself; take the fingerprint right after the build through a tiny wrapper
        orig_build = e1.build

        def build_and_fp(case_, rec_):
            kw = orig_build(case_, rec_)
            rec_.kwargs = kw
            state["fp0"] = args_fp(kw)
            return kw

        e1.build = build_and_fp
        try:
            rec = e1.run(case, hook=hook)
        finally:
            e1.build = orig_build
        stats["seq_runs"] += 1
        after = args_fp(rec.kwargs)
        if after != state["fp0"]:
            which = [nm for nm, a, b in zip(["x0", "bounds", "constraints", "args", "options"], after, state["fp0"])
                     if a != b]
            viol.append({"key": "argument-modified:" + "+".join(which), "case": case,
                         "what": f"minimize modified its argument(s) {which}"})
        if state["bad"] is not None:
            fid, k, which = state["bad"]
            viol.append({"key": "argument-modified-during-run:" + "+".join(which), "case": case,
                         "what": f"argument(s) {which} were observed modified at call {k} of {fid}"})
        ms = module_state()
        if ms != ms0:
            viol.append({"key": "module-state-changed", "case": case,
                         "what": "the state of the cobyqa modules (globals, class attributes, defaults, closures) "
                                 "changed during a call of minimize"})
            ms0 = ms
        digs.append(e1.digest(rec) + common.sha([rec.stdout, [repr(np.asarray(getattr(rec.res, h, [])).tobytes())
                                                                for h in ("fun_history", "maxcv_history")]
                                                  if rec.res is not None else None]))
    stats["fingerprint_points"] = state["n"]
    if digs[0] != digs[1]:
        viol.append({"key": "repetition-differs", "case": case,
                     "what": "two identical calls in one process gave different evaluation logs or results"})
    return viol, stats, digs[0]


def fresh_process_digests(cases):
    """Digests of the same cases computed in a fresh interpreter."""
    code = ("import sys,json; sys.path.insert(0,%r); from mc.props import c11; "
            "cases=json.load(sys.stdin); print(json.dumps([c11.run_seq(c)[2] for c in cases]))" % common.VERIF)
    env = dict(os.environ)
    r = subprocess.run([sys.executable, "-B", "-c", code], input=json.dumps(cases), capture_output=True, text=True,
                       env=env, cwd=common.VERIF, timeout=1800)
    if r.returncode != 0:
        raise common.HarnessError("fresh-process run failed: " + r.stderr[-500:])
    return json.loads(r.stdout.strip().splitlines()[-1])


# ---------------------------------------------------------------------------------------------- (d) nesting
def make_problem(kind, log, sched=None, tid=None, shared=None):
    """A tiny problem with logging closures.  kind selects the data."""
    a, c, r2, lin_b = {"A": (1.0, 0.75, 1.0, 1.0), "B": (2.0, -0.25, 2.25, 0.5), "C": (0.5, 1.25, 0.5625, 1.5)}[kind]

    def pt(label):
        if sched is not None:
            sched.point(("S1", label))

    def fun(x, *args):
        pt("obj-in")
        v = float(a * (x[0] - c) ** 2)
        log.append(("obj", x.tobytes(), v))
        pt("obj-out")
        return v

    def con(x):
        pt("con-in")
        v = float((x[0] - 0.5) ** 2 - r2)
        log.append(("con", np.asarray(x, float).tobytes(), v))
        pt("con-out")
        return v

    def cb(intermediate_result):
        pt("cb-in")
        log.append(("cb", np.asarray(intermediate_result.x, float).tobytes(), float(intermediate_result.fun)))
        pt("cb-out")

    if shared is None:
        shared = {"bounds": Bounds(np.array([-2.0]), np.array([3.0])),
                  "lin": LinearConstraint(np.array([[1.0]]), np.array([-np.inf]), np.array([lin_b])),
                  "x0": np.array([1.0]), "options": {"maxfev": 6, "nb_points": 3}}
        shared["nlc"] = None
    nlc = shared.get("nlc") or NonlinearConstraint(con, np.array([-np.inf]), np.array([0.0]))
    return dict(fun=fun, x0=shared["x0"], bounds=shared["bounds"], constraints=[shared["lin"], nlc],
                callback=cb, options=shared["options"]), con


def result_tuple(res):
    return (np.asarray(res.x, float).tobytes(), float(res.fun), float(res.maxcv), int(res.status), int(res.nfev),
            int(res.nit), bool(res.success))


def run_nesting(where, j):
    """Outer run whose `where` function starts an inner minimize at its j-th call."""
    viol = []
    # references
    log_o = []
    kw_o, _ = make_problem("A", log_o)
    ref_o = result_tuple(cobyqa.minimize(**kw_o))
    ref_log_o = list(log_o)
    log_i = []
    kw_i, _ = make_problem("B", log_i)
    kw_i["bounds"], kw_i["constraints"] = kw_o["bounds"], kw_o["constraints"]  # share the outer's objects
    kw_i["options"] = {"maxfev": 7, "nb_points": 3}
    ref_i = result_tuple(cobyqa.minimize(**kw_i))
    if len([e for e in ref_log_o if e[0] == {"fun": "obj", "con": "con", "cb": "cb"}[where]]) < j:
        return None, 0
    # nested
    log_o2 = []
    inner = {"res": None, "active": False}
    kw, con = make_problem("A", log_o2)
    count = {"k": 0}

    def nested():
        inner["active"] = True
        log_in = []
        kwi, _ = make_problem("B", log_in)
        kwi["bounds"], kwi["constraints"] = kw["bounds"], kw["constraints"]
        kwi["options"] = {"maxfev": 7, "nb_points": 3}
        inner["res"] = result_tuple(cobyqa.minimize(**kwi))
        inner["active"] = False

    def wrap(f):
        def g(*a, **k):
            if inner["active"]:
                return f(*a, **k)  # call made by the inner run through a shared constraint object
            count["k"] += 1
            if count["k"] == j:
                n0 = len(log_o2)
                nested()
                del log_o2[n0:]  # calls made by the inner run through shared functions are not the outer's
            return f(*a, **k)
        return g

    if where == "fun":
        kw["fun"] = wrap(kw["fun"])
    elif where == "cb":
        kw["callback"] = wrap_cb(kw["callback"], wrap)
    else:
        nl = kw["constraints"][1]
        kw["constraints"] = [kw["constraints"][0], NonlinearConstraint(wrap(nl.fun), nl.lb, nl.ub)]
    # the outer's own log must not contain the inner's calls: filter by the flag at logging time
    res = result_tuple(cobyqa.minimize(**kw))
    case = {"engine": "nesting", "where": where, "j": j}
    if res != ref_o or log_o2 != ref_log_o:
        viol.append({"key": f"nesting-changes-outer:{where}", "case": case,
                     "what": f"an inner minimize started from the outer run's {where} at its call {j} changed the "
                             f"outer run"})
    if inner["res"] is not None and inner["res"] != ref_i:
        viol.append({"key": f"nesting-changes-inner:{where}", "case": case,
                     "what": f"an inner minimize started from the outer run's {where} at call {j} differs from the "
                             f"same call made alone"})
    return viol, 1


def wrap_cb(cb, wrap):
    g = wrap(lambda ir: cb(ir))

    def callback(intermediate_result):
        return g(intermediate_result)
    return callback


# ---------------------------------------------------------------------------------------------- (e) threads
CONFIGS = ["disjoint", "shared", "same-shape"]


def thread_bodies(config, nthreads, maxfev=None):
    """Returns make_bodies() for E4 and the stand-alone references."""
    kinds = {"disjoint": ["A", "B", "C"], "shared": ["A", "A", "A"], "same-shape": ["A", "B", "C"]}[config][:nthreads]

    def build(sched, shared_objs):
        bodies = []
        for t, kind in enumerate(kinds):
            def body(sch, tid, kind=kind):
                log = []
                kw, _ = make_problem(kind, log, sched=sch, tid=tid, shared=shared_objs)
                if maxfev and shared_objs is None:
                    kw["options"] = dict(kw["options"], maxfev=maxfev)
                res = cobyqa.minimize(**kw)
                return (result_tuple(res), tuple(log))
            bodies.append(body)
        return bodies

    def make_bodies():
        shared_objs = None
        ids = set()
        if config == "shared":
            shared_objs = {"bounds": Bounds(np.array([-2.0]), np.array([3.0])),
                           "lin": LinearConstraint(np.array([[1.0]]), np.array([-np.inf]), np.array([1.0])),
                           "x0": np.array([1.0]), "options": {"maxfev": maxfev or 6, "nb_points": 3}, "nlc": None}
            ids = {id(shared_objs[k]) for k in ("bounds", "lin", "x0", "options")}
            ids |= {id(shared_objs["bounds"].lb), id(shared_objs["bounds"].ub), id(shared_objs["lin"].A)}
        return build(None, shared_objs), ids

    class Null:
        def point(self, label):
            return None

    refs = []
    bodies, _ = make_bodies()
    for t, b in enumerate(bodies):
        refs.append(b(Null(), t))
    return make_bodies, refs


def run_threads(item):
    """One work item: (config, nthreads, bound, first thread, step range)."""
    config, nthreads, bound, first, rng, s1s2_only = item
    focus, _ = e4.scan_focus()
    make_bodies, refs = thread_bodies(config, nthreads)
    viol = []
    stats = {"schedules": 0, "sched_points": 0, "switches": 0}
    pf = None
    if s1s2_only:
        pf = lambda label: label is not None and label[0] in ("S1", "S2")  # noqa: E731
    for decisions, sch, err in e4.explore(make_bodies, bound, focus, first_threads=[first], root_range=rng,
                                          prefix_filter=pf, s3=not s1s2_only):
        stats["schedules"] += 1
        stats["sched_points"] += len(sch.trace)
        stats["switches"] += sum(1 for i in range(1, len(sch.trace)) if sch.trace[i][3] != sch.trace[i - 1][3])
        for lab in {t[4][0] for t in sch.trace if t[4]}:
            stats["points_" + lab] = stats.get("points_" + lab, 0) + 1
        case = {"engine": "threads", "config": config, "nthreads": nthreads,
                "decisions": {str(k): v for k, v in decisions.items()}}
        if err is not None:
            viol.append({"key": "deadlock", "case": case, "what": f"schedule {decisions}: {err}"})
            continue
        for t in range(nthreads):
            if sch.errors[t] is not None:
                viol.append({"key": f"thread-exception:{sch.errors[t][0]}", "case": case,
                             "what": f"schedule {decisions}: thread {t} raised {sch.errors[t][0]}: {sch.errors[t][1]}"})
            elif sch.results[t] != refs[t]:
                viol.append({"key": f"interleaving-changes-result:{config}", "case": case,
                             "what": f"schedule {decisions}: thread {t} ({config}) differs from the same call alone"})
        if len(viol) > 5:
            break
    uniq = {}
    for v in viol:
        uniq.setdefault(v["key"], v)
    return {"viol": list(uniq.values()), "stats": stats}


def root_length(config, nthreads, first):
    focus, _ = e4.scan_focus()
    make_bodies, refs = thread_bodies(config, nthreads)
    bodies, shared = make_bodies()
    sch = e4.Scheduler(bodies, {0: first} if first else {}, focus, shared)
    sch.run()
    return len(sch.trace)


def run_pool(nthreads=16, ncalls=64):
    """Free-running complement (decides nothing by itself, but a difference is a genuine violation): many calls on
    a real thread pool, sharing the bounds / constraint objects, compared with the same calls made alone."""
    from concurrent.futures import ThreadPoolExecutor
    kinds = ["A", "B", "C"]
    refs = {}
    for kind in kinds:
        log = []
        kw, _ = make_problem(kind, log)
        refs[kind] = (result_tuple(cobyqa.minimize(**kw)), tuple(log))
    shared = {"bounds": Bounds(np.array([-2.0]), np.array([3.0])),
              "lin": LinearConstraint(np.array([[1.0]]), np.array([-np.inf]), np.array([1.0])),
              "x0": np.array([1.0]), "options": {"maxfev": 6, "nb_points": 3}, "nlc": None}

    def job(i):
        kind = kinds[i % 3]
        log = []
        kw, _ = make_problem(kind, log, shared=shared if kind == "A" else None)
        return kind, (result_tuple(cobyqa.minimize(**kw)), tuple(log))

    viol = []
    with ThreadPoolExecutor(nthreads) as ex:
        for kind, got in ex.map(job, range(ncalls)):
            if got != refs[kind]:
                viol.append({"key": "thread-pool-changes-result", "case": {"engine": "pool", "kind": kind},
                             "what": f"a call of kind {kind} on a {nthreads}-thread pool differs from the same call alone"})
                break
    return viol, ncalls


# ---------------------------------------------------------------------------------------------- dispatch
def run_case(item):
    kind = item["kind"] if isinstance(item, dict) and "kind" in item else None
    if kind == "seq":
        viol, stats, dig = run_seq(item["case"])
        return {"viol": viol, "stats": stats, "digests": [dig], "extra": {"idx": item["i"], "dig": dig}}
    if kind == "nest":
        viol, n = run_nesting(item["where"], item["j"])
        return {"viol": viol or [], "stats": {"nestings": n}}
    if kind == "threads":
        return run_threads(item["item"])
    if kind == "pool":
        viol, n = run_pool()
        return {"viol": viol, "stats": {"pool_calls": n}}
    if isinstance(item, dict) and item.get("engine") == "nesting":
        viol, n = run_nesting(item["where"], item["j"])
        return {"viol": viol or [], "stats": {}}
    if isinstance(item, dict) and item.get("engine") == "threads":
        # replay one schedule
        focus, _ = e4.scan_focus()
        make_bodies, refs = thread_bodies(item["config"], item["nthreads"])
        bodies, shared = make_bodies()
        sch = e4.Scheduler(bodies, {int(k): v for k, v in item["decisions"].items()}, focus, shared)
        viol = []
        try:
            sch.run()
        except e4.Deadlock as e:
            viol.append({"key": "deadlock", "case": item, "what": str(e)})
            return {"viol": viol, "stats": {}}
        for t in range(item["nthreads"]):
            if sch.errors[t] is not None:
                viol.append({"key": f"thread-exception:{sch.errors[t][0]}", "case": item, "what": sch.errors[t][1]})
            elif sch.results[t] != refs[t]:
                viol.append({"key": f"interleaving-changes-result:{item['config']}", "case": item,
                             "what": f"thread {t} differs from the same call alone"})
        return {"viol": viol, "stats": {}}
    # replay of a sequential case
    viol, stats, dig = run_seq(item)
    return {"viol": viol, "stats": stats, "digests": [dig]}


def execute(tier, seed, limit=0):
    agg = common.Agg()
    herr = []
    items = []
    seq = alpha.permute(seq_roots(tier), seed)
    if limit:
        seq = seq[:limit]
    for i, c in enumerate(seq):
        items.append({"kind": "seq", "case": c, "i": i})
    for where in ("fun", "con", "cb"):
        for j in range(1, 8):
            items.append({"kind": "nest", "where": where, "j": j})
    items.append({"kind": "pool"})
    # threads: split the root schedule's steps into ranges
    plans = [(cfg, 2, 1, False) for cfg in CONFIGS]
    if tier == "thorough":
        plans += [(cfg, 2, 2, True) for cfg in ("shared", "same-shape")] + [(cfg, 3, 1, False) for cfg in CONFIGS]
    for cfg, nthreads, bound, s1s2 in plans:
        for first in (range(nthreads) if bound == 1 else [0]):
            n = root_length(cfg, nthreads, first)
            nchunks = 16 if bound == 1 else 64
            size = max(1, (n + nchunks - 1) // nchunks)
            for a in range(0, n, size):
                items.append({"kind": "threads", "item": (cfg, nthreads, bound, first, (a, a + size), s1s2)})
    mod = __import__("mc.props.c11", fromlist=["x"])
    for out in common.run_roots(mod, items, chunksize=1):
        agg.add(out)
    # fresh-process comparison
    digs = {e["idx"]: e["dig"] for e in agg.extra}
    sub = seq[:: max(1, len(seq) // 24)]
    idxs = list(range(0, len(seq), max(1, len(seq) // 24)))
    fresh = fresh_process_digests(sub)
    nfresh = 0
    for i, d in zip(idxs, fresh):
        nfresh += 1
        if digs.get(i) != d:
            agg.viol.append({"key": "fresh-process-differs", "case": seq[i],
                             "what": "the same call gives a different evaluation log or result in a fresh process"})
    s = agg.stats
    for k in ("seq_runs", "fingerprint_points", "nestings", "schedules", "sched_points", "points_S1", "points_S2"):
        if not s.get(k):
            herr.append(f"non-vacuity counter {k} is zero")
    focus, details = e4.scan_focus()
    cov = {
        "states": int(s.get("sched_points", 0)), "transitions": int(s.get("sched_points", 0) + s.get("switches", 0)),
        "traces_validated_against_impl": int(s.get("schedules", 0)),
        "samples": [it if it["kind"] != "seq" else {"kind": "seq", "case_tag": it["case"]["tag"]}
                    for it in (items[0], items[len(seq)], items[-1])],
        "exhaustive": True,
        "schedules_explored": int(s.get("schedules", 0)), "preemption_bound_completed": 2 if tier == "thorough" else 1,
        "thread_plans": [list(p) for p in plans],
        "focus_set_S2": details,
        "scheduling_point_kinds": {k[7:]: int(v) for k, v in s.items() if k.startswith("points_")},
        "sequential": {"cases": len(seq), "runs": int(s.get("seq_runs", 0)),
                       "argument_fingerprint_points": int(s.get("fingerprint_points", 0)),
                       "fresh_process_cases": nfresh, "nestings": int(s.get("nestings", 0)),
                       "free_running_pool_calls_16_threads": int(s.get("pool_calls", 0))},
        "explanation": "the interleavings are executions of the real code under the controlled scheduler, so every "
                       "explored schedule is by construction validated against the implementation",
        "evaluations": int(s.get("schedules", 0) + s.get("seq_runs", 0) + s.get("nestings", 0)),
        "distinct_nontrivial": int(s.get("schedules", 0)),
    }
    return agg, cov, herr, []
