"""C04 - on well-posed reference problems the solver finds the minimiser."""
import math
from fractions import Fraction as Fr

import numpy as np
from scipy.optimize import Bounds, LinearConstraint, NonlinearConstraint

from .. import alpha, common, refqp

cobyqa = common.bind_repo()

ID = "C04"
LEVEL = "exploration"
INF = math.inf
ASSUMPTIONS = [
    "bounded-exhaustive testing of a numerical algorithm on five reference families, not a convergence proof",
    "exact minimisers from the harness' own rational active-set enumeration (mc/refqp.py) / closed form",
    "acceptance: status 0, success, maxcv <= feasibility_tol, |x-x*| <= 1e-3*max(1,|x*|) (final radius is 1e-6)",
]
RULE = ("F1 unconstrained strictly convex quadratics, F2 the same in a box (solution interior / face / vertex), F3 with "
        "linear equalities, F4 one-variable convex quadratics over the interval cut out by bounds and linear "
        "inequalities (3 curvatures x 6 centres x 5 boxes x 5 inequality sets x 8 starts), F5 linear objective over "
        "a ball; Hessians Q'diag(1..kappa)Q, kappa in {1,10,100}, Q in {identity, fixed rational rotation}; x0 at "
        "distance {0.1,1,5,50} along +-coordinate and diagonal directions; n in 1..3 quick, 1..5 thorough. "
        "Non-trivial = instance whose minimiser lies on the boundary of the feasible set; distinct = distinct instance.")
CHUNK = 4


def hess(n, kappa, rot):
    d = [Fr(1)] * n if n == 1 else [Fr(kappa) ** 0 * Fr(round(kappa ** (i / (n - 1)) * 1024), 1024) for i in range(n)]
    Q = [[d[i] if i == j else Fr(0) for j in range(n)] for i in range(n)]
    if rot and n >= 2:
        for k in range(n - 1):
            R = [[Fr(1) if i == j else Fr(0) for j in range(n)] for i in range(n)]
            R[k][k] = Fr(3, 5)
            R[k][k + 1] = Fr(-4, 5)
            R[k + 1][k] = Fr(4, 5)
            R[k + 1][k + 1] = Fr(3, 5)
            RT = [[R[j][i] for j in range(n)] for i in range(n)]
            Q = matmul(matmul(RT, Q), R)
    return Q


def matmul(A, B):
    n = len(A)
    return [[sum(A[i][k] * B[k][j] for k in range(n)) for j in range(n)] for i in range(n)]


def dirs(n):
    out = []
    e = [1.0] + [0.0] * (n - 1)
    out.append(e)
    out.append([-v for v in e])
    if n > 1:
        dg = [1.0 / math.sqrt(n)] * n
        out.append(dg)
        out.append([(-1.0) ** i / math.sqrt(n) for i in range(n)])
    return out


def roots(tier, seed):
    out = []
    ns = [1, 2, 3] if tier == "quick" else [1, 2, 3, 4, 5]
    dists = [0.1, 1.0, 5.0, 50.0]
    for n in ns:
        kappas = [1, 10, 100] if n > 1 else [1]
        dd = dists if n <= 3 else [1.0, 50.0]
        for kappa in kappas:
            for rot in ([False, True] if n > 1 else [False]):
                cents = {"c0": [0.5, -0.25, 0.75, 0.125, -0.5][:n]}
                for cname, c in cents.items():
                    # F1
                    for dist in dd:
                        for di, d in enumerate(dirs(n)):
                            out.append({"fam": "F1", "n": n, "kappa": kappa, "rot": rot, "c": c, "dist": dist, "dir": di})
                    # F2: box placed so that the solution is interior / on a face / at a vertex
                    for place in ["interior", "face", "vertex"]:
                        lb = [-2.0] * n
                        ub = [2.0] * n
                        if place in ("face", "vertex"):
                            ub[0] = 0.0  # c[0] = 0.5 > 0 -> active
                        if place == "vertex":
                            for i in range(1, n):
                                lb[i] = c[i] + 0.5
                                ub[i] = c[i] + 2.5
                            if n == 1:
                                continue
                        for dist in dd:
                            for di in range(len(dirs(n))):
                                out.append({"fam": "F2", "n": n, "kappa": kappa, "rot": rot, "c": c, "lb": lb, "ub": ub,
                                            "place": place, "dist": dist, "dir": di})
                    # F3: linear equalities
                    if n >= 2:
                        eqsets = [([[1.0] * n], [1.0])]
                        if n >= 3:
                            eqsets.append(([[1.0] * n, [1.0, -1.0] + [0.0] * (n - 2)], [1.0, 0.5]))
                        # many equality rows in general position (few free directions): rows from a fixed formula,
                        # entries multiples of 1/64, right-hand sides chosen so that (0.25, ..., 0.25) is feasible
                        for m in sorted({n - 1, max(1, n - 2)}):
                            Ag = [[round(64 * math.sin(1.0 + 2.3 * i + 0.7 * j * (i + 1))) / 64.0 for j in range(n)]
                                  for i in range(m)]
                            eqsets.append((Ag, [sum(row) * 0.25 for row in Ag]))
                        for A, b in eqsets:
                            for dist in dd:
                                for di in range(len(dirs(n))):
                                    out.append({"fam": "F3", "n": n, "kappa": kappa, "rot": rot, "c": c, "Aeq": A,
                                                "beq": b, "dist": dist, "dir": di})
        # F5: linear objective over a ball (n >= 1)
        for g in ([[1.0] + [0.0] * (n - 1), [1.0, -2.0, 0.5, 1.5, -1.0][:n], [-0.25] * n]):
            for r in [0.5, 2.0]:
                for dist in dd:
                    for di in range(len(dirs(n))):
                        out.append({"fam": "F5", "n": n, "g": g, "r": r, "xc": [0.25] * n, "dist": dist, "dir": di})
    # F4: one variable
    for a in [0.5, 1.0, 4.0]:
        for c in [-3.0, -1.25, 0.0, 0.5, 2.0, 6.0]:
            for box in [(None, None), (-1.0, None), (None, 1.5), (-1.0, 1.5), (-0.5, 0.25)]:
                for ineq in [[], [(1.0, 1.0)], [(-1.0, 0.5)], [(1.0, 1.0), (-1.0, 0.5)], [(2.0, 1.0), (1.0, 3.0)]]:
                    for x0 in [-50.0, -5.0, -1.0, -0.1, 0.0, 0.1, 1.0, 50.0]:
                        out.append({"fam": "F4", "n": 1, "a": a, "c": c, "box": list(box), "ineq": [list(t) for t in ineq],
                                    "x0": x0})
    # explicit instances of the families (data kept in mc/c04_explicit.json): instances on which a defect was seen
    import json
    import os
    with open(os.path.join(os.path.dirname(os.path.dirname(os.path.abspath(__file__))), "c04_explicit.json")) as fh:
        out.extend(json.load(fh))
    return alpha.permute(out, seed)


def build(inst):
    """Returns (kwargs for minimize, exact minimiser as floats, on_boundary flag) or None if infeasible."""
    fam, n = inst["fam"], inst["n"]
    if fam == "F4":
        a, c = inst["a"], inst["c"]
        lo, hi = inst["box"]
        lo_e = -INF if lo is None else lo
        hi_e = INF if hi is None else hi
        cons = []
        for g, h in inst["ineq"]:
            if g > 0:
                hi_e = min(hi_e, h / g)
            else:
                lo_e = max(lo_e, h / g)
            cons.append(LinearConstraint([[g]], -INF, h))
        if lo_e > hi_e:
            return None
        xs = [min(max(c, lo_e), hi_e)]
        kw = dict(fun=lambda x: 0.5 * a * (x[0] - c) ** 2, x0=[inst["x0"]], constraints=cons)
        if lo is not None or hi is not None:
            kw["bounds"] = Bounds([-INF if lo is None else lo], [INF if hi is None else hi])
        return kw, xs, xs[0] != c
    if fam == "F5":
        g = np.array(inst["g"])
        xc = np.array(inst["xc"])
        r = inst["r"]
        xs = xc - r * g / np.linalg.norm(g)
        x0 = xs + inst["dist"] * np.array(dirs(n)[inst["dir"]])
        kw = dict(fun=lambda x: float(g @ x), x0=x0,
                  constraints=[NonlinearConstraint(lambda x: float(np.sum((x - xc) ** 2)), -INF, r * r)])
        return kw, list(xs), True
    if fam == "F3x":
        H = np.array(inst["H"], float)
        g = np.array(inst["g"], float)
        A = np.array(inst["Aeq"], float)
        bb = np.array(inst["beq"], float)
        m = A.shape[0]
        K = np.block([[H, A.T], [A, np.zeros((m, m))]])
        xs = np.linalg.solve(K, np.concatenate([-g, bb]))[:n]
        kw = dict(fun=lambda x: 0.5 * float(x @ H @ x) + float(g @ x), x0=np.array(inst["x0"], float),
                  constraints=[LinearConstraint(A, bb, bb)])
        return kw, [float(v) for v in xs], True
    Qf = hess(n, inst["kappa"], inst["rot"])
    Q = np.array([[float(v) for v in row] for row in Qf])
    c = np.array(inst["c"])
    lb = inst.get("lb")
    ub = inst.get("ub")
    xs = refqp.qp(Qf, [Fr(v) for v in inst["c"]],
                  lb=None if lb is None else [Fr(v) for v in lb], ub=None if ub is None else [Fr(v) for v in ub],
                  Aeq=inst.get("Aeq"), beq=inst.get("beq"))
    if xs is None:
        return None
    xs = [float(v) for v in xs]
    x0 = np.array(xs) + inst["dist"] * np.array(dirs(n)[inst["dir"]])
    kw = dict(fun=lambda x: 0.5 * float((x - c) @ Q @ (x - c)), x0=x0)
    if lb is not None:
        kw["bounds"] = Bounds(lb, ub)
    if "Aeq" in inst:
        kw["constraints"] = [LinearConstraint(np.array(inst["Aeq"]), inst["beq"], inst["beq"])]
    on_b = bool(np.max(np.abs(np.array(xs) - c)) > 1e-12)
    return kw, xs, on_b


def run_case(inst):
    stats = {"runs": 0}
    viol = []
    b = build(inst)
    if b is None:
        return {"viol": [], "stats": {"infeasible_skipped": 1}}
    kw, xs, on_b = b
    try:
        with np.errstate(all="ignore"), common.watchdog(120):
            res = cobyqa.minimize(**kw)
    except common.Timeout:
        return {"viol": [{"key": "hang:" + inst["fam"], "what": "no return within 120 s", "case": inst}], "stats": stats}
    stats["runs"] = 1
    stats["runs_" + inst["fam"]] = 1
    stats["nfev"] = int(res.nfev)
    if on_b:
        stats["solution_on_boundary"] = 1
    xs = np.array(xs)
    err = float(np.linalg.norm(np.asarray(res.x) - xs))
    tol = math.sqrt(np.finfo(float).eps)
    ok = (int(res.status) == 0 and bool(res.success) and float(res.maxcv) <= tol
          and err <= 1e-3 * max(1.0, float(np.linalg.norm(xs))))
    if not ok:
        if int(res.status) != 0 or not bool(res.success):
            kind = f"status{int(res.status)}"
        elif float(res.maxcv) > tol:
            kind = "infeasible"
        else:
            kind = "wrong-point"
        key = f"{kind}:{inst['fam']}"
        viol.append({"key": key, "case": inst,
                     "what": f"{inst['fam']} instance: status={res.status} success={res.success} maxcv={res.maxcv:.3g} "
                             f"x={np.asarray(res.x).tolist()} exact minimiser={xs.tolist()} error={err:.3g} nfev={res.nfev}"})
    return {"viol": viol, "stats": stats, "extra": {"err": err, "fam": inst["fam"]}}


def coverage(agg, tier, roots_):
    s = agg.stats
    herr = [f"non-vacuity counter {k} is zero" for k in
            ("runs_F1", "runs_F2", "runs_F3", "runs_F3x", "runs_F4", "runs_F5", "solution_on_boundary") if not s.get(k)]
    errs = [e["err"] for e in agg.extra]
    cov = {"evaluations": int(s.get("runs", 0)), "distinct_nontrivial": int(s.get("solution_on_boundary", 0)),
           "rule": RULE, "exhaustive": True, "roots": len(roots_),
           "function_evaluations": int(s.get("nfev", 0)),
           "max_error_observed": max(errs, default=0.0),
           "non_vacuity": {k: int(v) for k, v in sorted(s.items())}}
    return cov, herr
