"""C12 - models interpolate the recorded values after every update, shift and reset."""
import numpy as np

from .. import alpha, common, e1, e1prop, e2, e2models

ID = "C12"
LEVEL = "model_checking"
EPS = e2models.EPS
ASSUMPTIONS = [
    "operations are enabled only when the exact (rational) determinant of the new KKT matrix is non-zero: the "
    "property quantifies over poised sets",
    "tolerance 1e3*eps*kappa*max(1,|values|) with kappa the largest 2-norm condition number, since the last reset, "
    "of the scaled KKT matrix rebuilt by the harness",
    "parity oracle: the inequality model is fed bit-identical data to the objective model, so its coefficients must "
    "be bit-identical",
    "states are de-duplicated on the exact rational reference state (base, points, values, exact models); "
    "lattice coordinates have short binary expansions, so the stored points must equal the reference exactly",
    "real runs: residuals and bookkeeping observed through transparent wrappers (engine E1, monitor 'models'); "
    "tolerance 1e3*eps*kappa_max*(number of operations since the last rebuild)*scale, kappa from the eigenvalues "
    "of the solver's own scaled system",
]


def resid(models, k, which):
    x = models.interpolation.point(k)
    if which == 0:
        return abs(models.fun(x) - models.fun_val[k])
    if which == 1:
        return abs(models.cub(x)[0] - models.cub_val[k, 0])
    return abs(models.ceq(x)[0] - models.ceq_val[k, 0])


def same(a, b):
    return np.array_equal(np.asarray(a), np.asarray(b), equal_nan=True)


def oracle(st, models, info):
    viol = []
    case = e2models.case_of(st)
    ref = st["ref"]
    n, npt = st["n"], st["npt"]

    def add(key, what):
        viol.append({"key": key, "what": what, "case": case})

    # (3) bookkeeping: stored points and values are the supplied ones
    it = models.interpolation
    for k in range(npt):
        want = [float(ref.xb[i] + ref.Y[k][i]) for i in range(n)]
        if not np.array_equal(it.point(k), np.array(want)):
            add("stored-point-wrong", f"interpolation point {k} is {it.point(k).tolist()}, expected {want} "
                                      f"after {info['op']}")
            return viol
        got = (models.fun_val[k], models.cub_val[k, 0], models.ceq_val[k, 0])
        exp = tuple(float(ref.vals[fi][k]) for fi in range(3))
        if got != exp:
            add("stored-value-wrong", f"values recorded for point {k} are {got}, supplied {exp} after {info['op']}")
            return viol
    # (2) parity between the objective model and the constraint model fed the same data
    f, c = models._fun, models._cub[0]
    if not (same(f._const, c._const) and same(f._grad, c._grad) and same(f._i_hess, c._i_hess)
            and same(f._e_hess, c._e_hess)):
        add("parity-broken" + (":ill-conditioned" if info.get("ill") else ""),
            f"after {info['op']} the constraint model fed the objective's data differs from the objective model "
            f"(ill_conditioned={info.get('ill')})")
    # (1) interpolation conditions
    kappa = st["kappa"]
    scale = max(1.0, float(np.max(np.abs(models.fun_val))), float(np.max(np.abs(models.ceq_val))))
    tol = 1e3 * EPS * kappa * scale
    worst = 0.0
    for which in range(3):
        for k in range(npt):
            r = resid(models, k, which)
            if not (r <= tol):
                add(f"interpolation-error:{['objective', 'inequality', 'equality'][which]}",
                    f"after {info['op']} model {which} misses the value at point {k} by {r:.3g} "
                    f"(tolerance {tol:.3g}, kappa {kappa:.3g})")
                return viol
            worst = max(worst, r / scale)
    st["worst"] = worst
    return viol


CONFIGS_Q = [(1, 2), (1, 3), (2, 3), (2, 4), (2, 5), (2, 6)]


def e1_roots(tier):
    out = []
    for n in ([1, 2] if tier == "quick" else [1, 2, 3]):
        for pats in [("free",) * n, ("wide",) * n]:
            for cons in ["none", "ball_le", "ball_eq", "cubic_le", "nl_vec", "lin+nl"]:
                for obj in ["quad", "cubic", "abs"]:
                    for npt in sorted({n + 1, 2 * n + 1, (n + 1) * (n + 2) // 2}):
                        c = alpha.base_case(n, pats, "in", obj, cons,
                                            options={"nb_points": npt, "maxfev": 60 if tier == "quick" else 200 * n})
                        c["monitors"] = ["models"]
                        c["explore"] = 1 if (tier == "thorough" and n == 1) else 0
                        out.append(c)
    from .. import cover
    out += cover.roots_for(tier, monitors=["models"])
    return out


def e1_oracle(rec, table=None):
    viol = []
    kmax = 1.0
    smax = 1.0
    nops = 0
    for i, m in enumerate(rec.notes.get("models", [])):
        if m["op"] in ("init", "reset_models"):
            kmax, nops, smax = 1.0, 0, 1.0
        kmax = max(kmax, m["cond"])
        # the magnitude of the data the current models were built from: a barrier value (2^100) that has left
        # the interpolation set since the last rebuild still determines the size of the rounding errors, and so
        # does the magnitude of the (possibly cancelling) terms of the stored representation
        smax = max(smax, m["scale"], m.get("repr", 0.0))
        nops += 1
        # rounding errors accumulate over the operations since the last (re)build of the models
        tol = 1e3 * EPS * kmax * nops * smax
        if not (m["res"] <= tol):
            viol.append({"key": f"run:interpolation-error:{m['op']}",
                         "what": f"real run: after {m['op']} #{i} a model misses a recorded value by {m['res']:.3g} "
                                 f"(tolerance {tol:.3g})"})
            break
        if m.get("stored_ok") is False:
            viol.append({"key": "run:stored-value-not-returned-value",
                         "what": f"real run: {m['op']} #{i} stored values/points that are not those of the "
                                 f"evaluation(s) that produced them"})
            break
    return viol


def _e1_stats(rec, table, stats):
    ms = rec.notes.get("models", [])
    stats["model_ops_checked"] = stats.get("model_ops_checked", 0) + len(ms)
    for m in ms:
        stats["op_" + m["op"]] = stats.get("op_" + m["op"], 0) + 1
        if m.get("ill"):
            stats["ill_conditioned_updates"] = stats.get("ill_conditioned_updates", 0) + 1


def run_case(case):
    if case.get("engine") == "E2-models":
        v = e2models.replay_history(case["n"], case["npt"], case["hist"], oracle)
        for x in v:
            x["case"] = case
        return {"viol": v, "stats": {}, "digests": [common.sha(case)]}
    return e1prop.run_case_generic(case, e1_oracle, extra_stats=_e1_stats)


def run_bfs(tier, oracle_fn, depth_full, depth_thin, configs, time_cap):
    client = e2models.ModelsClient(configs, oracle_fn, depth_full, depth_thin)
    init_viol = []
    for key, st in client.initial():
        init_viol.extend(st.get("init_viol", []))
    res = e2.bfs(client, max_depth=max(depth_full.values()) + depth_thin, conform_every=50, time_cap=time_cap, conform_depth=1)
    res["viol"] = init_viol + res["viol"]
    return res


def execute(tier, seed, limit=0):
    agg = common.Agg()
    if tier == "quick":
        depth_full, depth_thin, configs, cap = {1: 3, 2: 2}, 0, CONFIGS_Q, 240
    else:
        depth_full, depth_thin = {1: 5, 2: 2, 3: 1}, 1
        configs = CONFIGS_Q + [(3, 4), (3, 7), (3, 10)]
        cap = 3000
    res = run_bfs(tier, oracle, depth_full, depth_thin, configs, cap)
    herr = []
    ill = 0
    for v in res["viol"]:
        if v["key"].startswith("HARNESS:"):
            herr.append(v["what"])
        else:
            agg.viol.append(v)
    for st, err in res["errors"]:
        agg.errors.append((None, err))
    rts = alpha.permute(e1_roots(tier), seed)
    if limit:
        rts = rts[:limit]
    for out in common.run_roots(__import__("mc.props.c12", fromlist=["x"]), rts):
        agg.add(out)
    s = agg.stats
    if not s.get("model_ops_checked"):
        herr.append("no model operation observed in real runs")
    if res["states"] < 100:
        herr.append("fewer than 100 component states")
    if not res["flags"].get("ill_conditioned"):
        herr.append("no state with an ill-conditioned update was reached")
    cov = {
        "states": int(res["states"]), "transitions": int(res["transitions"]),
        "traces_validated_against_impl": int(res["conformed"]),
        "samples": [{"n": st["n"], "nb_points": st["npt"], "history": st["hist"]} for st in res["samples"][:4]]
        or [{"n": 1, "nb_points": 2, "history": []}],
        "exhaustive": False, "depth_completed": res["depth_completed"], "states_per_depth": res["per_depth"],
        "cap_hit": res["capped"], "configurations": configs, "new_states_by_kind": res["flags"], "depth_full": depth_full, "depth_thin": depth_thin,
        "explanation": "breadth-first search over update/shift/reset operations on a real Models object, every "
                       "operation from every state up to the stated depth; lock-step exact rational reference; "
                       "conformance = histories replayed on a fresh object must reproduce the float state bit for bit",
        "real_runs": {"runs": int(s.get("runs", 0)), "model_operations_checked": int(s.get("model_ops_checked", 0)),
                      "updates": int(s.get("op_update_interpolation", 0)), "shifts": int(s.get("op_shift_x_base", 0)),
                      "resets": int(s.get("op_reset_models", 0)),
                      "ill_conditioned_updates": int(s.get("ill_conditioned_updates", 0))},
        "evaluations": int(res["transitions"] + s.get("runs", 0)), "distinct_nontrivial": int(res["states"]),
    }
    return agg, cov, herr, rts
