"""C20 - the callback sees, once per evaluation, the point minimize would return."""
import numpy as np

from .. import alpha, e1, e1prop, oracles

ID = "C20"
LEVEL = "exploration"
ASSUMPTIONS = [
    "only callables whose resulting signature has exactly one parameter are in the deciding set "
    "(named intermediate_result -> keyword convention, any other name -> positional)",
    "'the point minimize would return if it stopped at that moment' is decided differentially: the run whose "
    "callback raises StopIteration at call k must return exactly what the passive run's callback received at call k",
    "numeric data restricted to the dyadic alphabet; n <= 2 quick, <= 3 thorough",
]
RULE = ("{unconstrained, bounded, scaled, fixed variables, linear, nonlinear, NaN region} x 11 callback kinds "
        "(def/lambda/callable object/bound method/functools.partial, both conventions) x behaviours {passive; "
        "StopIteration at call k for every k = 1..nfev; overwrite the received array with NaN at every call}. "
        "Non-trivial = stopped or overwriting run; distinct = distinct bit-exact observation.")

SIGS = ["xk", "ir", "x_other", "lambda_xk", "lambda_ir", "obj_xk", "obj_ir", "meth_xk", "meth_ir",
        "partial_xk", "partial_ir"]


def roots(tier, seed):
    out = []
    ns = [1, 2] if tier == "quick" else [1, 2, 3]
    for n in ns:
        probs = [(("free",) * n, "none", False, None), (("wide",) * n, "none", False, None),
                 (("wide",) * n, "none", True, None), (("wide",) * n, "lin_le", False, None),
                 (("wide",) * n, "ball_le", False, None), (("wide",) * n, "cubic_le", True, None),
                 (("free",) * n, "ball_eq", False, None), (("wide",) * n, "none", False, "half"),
                 (("free",) * n, "cubic_eq", False, "inball")]
        if n > 1:
            probs += [(("fixed",) + ("wide",) * (n - 1), "ball_le", False, None),
                      (("fixed",) + ("wide",) * (n - 1), "lin_le", True, None)]
        for pats, cons, scale, nan in probs:
            for si, sig in enumerate(SIGS):
                full = si < 2  # every stop index for the two plain conventions, a thinner set for the others
                for obj in ["quad", "none"] if (cons != "none" and full) else ["quad"]:
                    opts = {"scale": scale, "maxfev": (24 if n == 1 else 36) if tier == "quick" else 60 * n}
                    case = alpha.base_case(n, pats, "in", obj, cons, options=opts, nan=nan,
                                           callback={"sig": sig, "behav": "passive"})
                    case["stops"] = "all" if full else "some"
                    case["explore"] = 0
                    out.append(case)
    from .. import cover
    for c in cover.roots_for(tier):
        if c.get("callback") is not None:
            c["stops"] = "some"
            out.append(c)
    return alpha.permute(out, seed)


def _post(base, recs, stats):
    viol = []
    rec0 = recs[0]
    if rec0.res is None:
        return viol
    base = {k: v for k, v in base.items() if k != "stops"}
    cbs0 = [c for c in rec0.calls if c["fid"] == "cb"]
    nfev = len(cbs0)
    ks = list(range(1, nfev + 1))
    if recs[0].case.get("stops") == "some":
        ks = sorted({1, 2, nfev // 2, nfev - 1, nfev} & set(ks))
    elif isinstance(recs[0].case.get("stops"), list):
        ks = [k for k in recs[0].case["stops"] if k in ks]
    d0 = _evalseq(rec0)
    for k in ks:
        c = dict(base)
        c["callback"] = dict(base["callback"], behav="stop", k=k)
        rec = e1.run(c)
        stats["runs"] += 1
        stats["stopped_runs"] = stats.get("stopped_runs", 0) + 1
        res = rec.res
        seen = cbs0[k - 1]
        if res is None:
            exc = rec.exc or ("?", "", "")
            viol.append({"key": f"stop-raises:{exc[0]}", "case": rec.case,
                         "what": f"callback raised StopIteration at call {k}: minimize raised {exc[0]}: {exc[1]} "
                                 f"instead of returning the point with status 3"})
            continue
        what = None
        early = bool(rec.pcalls) and all(p["kind"] == "result" for p in rec.pcalls)
        if early and int(res.status) in (-1, 2) and int(res.nfev) == k:
            # infeasible or all-fixed bounds: the only evaluation is made while the result of the early exit is
            # assembled; there is no iteration to stop and the early-exit status prevails (see DESIGN.md section 0)
            stats["early_exit_stops"] = stats.get("early_exit_stops", 0) + 1
            if not e1.same_bits(np.asarray(res.x, float), seen["x"]):
                what = ("stop-returns-other-point", f"early exit: returned {np.asarray(res.x).tolist()} but the "
                                                    f"callback had received {seen['x'].tolist()}")
        elif int(res.status) != 3 or int(res.nfev) != k:
            what = ("stop-status-nfev", f"callback raised StopIteration at call {k}: status={res.status} nfev={res.nfev}")
        elif not e1.same_bits(np.asarray(res.x, float), seen["x"]):
            what = ("stop-returns-other-point",
                    f"stopped at call {k}: minimize returned {np.asarray(res.x).tolist()} but the callback had "
                    f"received {seen['x'].tolist()}")
        elif seen["val"] is not None and not e1.feq(res.fun, seen["val"]):
            what = ("stop-returns-other-fun", f"stopped at call {k}: fun={res.fun} but callback saw {seen['val']}")
        if what:
            viol.append({"key": what[0], "what": what[1], "case": rec.case})
        for v in oracles.c20(rec):
            v["case"] = rec.case
            viol.append(v)
    # overwriting callback: same evaluation sequence, same result
    c = dict(base)
    c["callback"] = dict(base["callback"], behav="nanwrite")
    rec = e1.run(c)
    stats["runs"] += 1
    stats["overwriting_runs"] = stats.get("overwriting_runs", 0) + 1
    if _evalseq(rec) != d0:
        viol.append({"key": "overwrite-changes-run", "case": rec.case,
                     "what": "a callback that overwrites the array it receives changes the evaluations or the result"})
    # ... and the overwriting callback itself keeps receiving the true best points
    for v in oracles.c20(rec):
        v["case"] = rec.case
        viol.append(v)
    got = [q for q in rec.calls if q["fid"] == "cb"]
    for a, b in zip(got, cbs0):
        if not e1.same_bits(a["x"], b["x"]) or not (a["val"] is None and b["val"] is None
                                                     or e1.feq(a["val"], b["val"])):
            viol.append({"key": "overwrite-seen-by-later-callback", "case": rec.case,
                         "what": f"callback call {a['k']} of an overwriting callback received {a['x'].tolist()} "
                                 f"whereas a passive callback receives {b['x'].tolist()}"})
            break
    # keep: arrays handed out at different calls must be distinct objects with stable content
    c = dict(base)
    c["callback"] = dict(base["callback"], behav="keep")
    rec = e1.run(c)
    stats["runs"] += 1
    kept = rec.notes.get("kept", [])
    logged = [q["x"] for q in rec.calls if q["fid"] == "cb"]
    for a, b in zip(kept, logged):
        if not e1.same_bits(np.asarray(a, float), b):
            viol.append({"key": "kept-array-mutated", "case": rec.case,
                         "what": "an array handed to the callback was modified by the solver afterwards"})
            break
    return viol


def _evalseq(rec):
    seq = [(c["fid"], c["x"].tobytes()) for c in rec.calls if c["fid"] != "cb"]
    r = rec.res
    tail = None if r is None else (np.asarray(r.x, float).tobytes(), float(r.fun).hex() if r.fun == r.fun else "nan",
                                   int(r.status), int(r.nfev))
    return (tuple(seq), tail)


def _stats(rec, table, stats):
    sig = (rec.case.get("callback") or {}).get("sig")
    stats["sig_" + str(sig)] = stats.get("sig_" + str(sig), 0) + 1
    stats["callback_calls"] = stats.get("callback_calls", 0) + rec.counts.get("cb", 0)


def run_case(case):
    cb = case.get("callback") or {}
    if cb.get("behav") != "passive":
        # replay of one derived run (stopped at k / overwriting / keeping): rebuild its passive base and re-derive
        base = dict(case)
        base["callback"] = dict(cb, behav="passive")
        base.pop("dev", None)
        if cb.get("behav") == "stop":
            base["stops"] = [int(cb["k"])]
        return e1prop.run_case_generic(base, oracles.c20, extra_stats=_stats, post=_post)
    return e1prop.run_case_generic(case, oracles.c20, extra_stats=_stats, post=_post)


def coverage(agg, tier, roots_):
    need = ["stopped_runs", "overwriting_runs", "callback_calls", "evals_tr", "evals_geo", "evals_soc"] + \
           ["sig_" + s for s in SIGS]
    cov, herr = e1prop.coverage_generic(agg, tier, roots_, RULE, need=need)
    cov["distinct_nontrivial"] = int(agg.stats.get("stopped_runs", 0) + agg.stats.get("overwriting_runs", 0))
    return cov, herr
