"""C18 - trust-region radius, resolution, penalty and centre stay coherent.

(a) engine E2: breadth-first search over the radius-management rules of the real ``TrustRegion``
    (update_radius, the short-step reduction of the main loop, enhance_resolution);
(c) engine E1 monitors: every iteration of real runs.
(b) engine E3: the same invariants and "status 0 only at radius_final" on every control path of the real main
    loop run against a scripted back end (mc/e3.py, mc/ctrl.py).
"""
import itertools
import math

import numpy as np

from .. import alpha, common, ctrl, e1, e1prop, e2, oracles

cobyqa = common.bind_repo()
import cobyqa.framework as cframework  # noqa: E402
import cobyqa.main as cmain  # noqa: E402

ID = "C18"
LEVEL = "model_checking"
EPS = float(np.finfo(float).eps)
T = 2.0 ** -20
ASSUMPTIONS = [
    "(a) the radius rules depend only on (radius, resolution, constants, radius_final): a bare TrustRegion object "
    "carrying these attributes is driven directly (state injection; the real methods and property setters run)",
    "(a) enhance_resolution is enabled only while resolution > radius_final, as in the main loop",
    "(c) merit values, violations and best index are read through the TrustRegion object at every call of "
    "get_trust_region_step (transparent wrapper)",
    "centre: no interpolation point may have a merit smaller than the centre's by more than ten times the documented "
    "tie tolerance 10*eps*max(n,npt)*max(1,|merit|); which of several points tied within rounding is the centre is "
    "not judged (the scan order of the solver decides it); right after every set_best_index, however, an *exact* merit "
    "tie must have gone to the smaller violation when no other point lies within the tie tolerance of the least "
    "merit (provable for the sequential scan; with a near-tie in between the scan is order dependent - seen on the "
    "unchanged tree with radius_init = 1e-15 - and nothing is demanded)",
]
STEP_CLASSES = [0.05, 0.3, 0.5, 1.0]
RATIOS = [-1.0, 0.05, 0.1, 0.5, 0.7, 0.9]
RADII = [(1.0, 1e-30), (1.0, 1e-6), (1.0, 1.0), (1e3, 1e-3), (1.0, 0.0), (1e-15, 1e-30)]


def constant_sets():
    base = {}
    out = [("default", base)]
    lat = {
        "decrease_radius_factor": [T, 1 - T],
        "increase_radius_factor": [1 + 2 * T, 1e3],
        "increase_radius_threshold": [1 + T, 1e3],
        "decrease_radius_threshold": [1 + T],
        "decrease_resolution_factor": [T, 1 - T],
        "large_resolution_threshold": [1 + T, 1e6],
        "moderate_resolution_threshold": [1 + T, 200.0],
        "low_ratio": [T, 0.69],
        "high_ratio": [0.11, 1 - T],
    }
    for k, vals in lat.items():
        for v in vals:
            out.append((f"{k}={v}", {k: v}))
    return out


def make_fw(consts, radius, resolution):
    fw = cframework.TrustRegion.__new__(cframework.TrustRegion)
    fw._constants = consts
    fw._resolution = resolution
    fw._radius = radius
    return fw


class RadiusClient:
    def __init__(self, depth):
        self.depth = depth
        self.sets = []
        for cname, kw in constant_sets():
            consts = cmain._set_default_constants(**kw)
            for ri, rf in RADII:
                self.sets.append((cname, kw, consts, ri, rf))

    def initial(self):
        out = []
        for i, (cname, kw, consts, ri, rf) in enumerate(self.sets):
            st = {"cfg": i, "radius": ri, "resolution": ri, "hist": [], "nenh": 0, "depth": 0}
            out.append(((i, ri, ri, 0), st))
        return out

    def expand(self, st):
        cname, kw, consts, ri, rf = self.sets[st["cfg"]]
        options = {"radius_final": rf, "radius_init": ri}
        out = []
        ops = [("upd", c, r) for c in STEP_CLASSES for r in RATIOS] + [("short",)]
        if st["resolution"] > rf:
            ops.append(("enh",))
        for op in ops:
            fw = make_fw(consts, st["radius"], st["resolution"])
            with np.errstate(all="ignore"):
                if op[0] == "upd":
                    step = np.array([op[1] * st["radius"]])
                    fw.update_radius(step, op[2])
                elif op[0] == "short":
                    fw.radius *= consts["decrease_resolution_factor"]
                else:
                    fw.enhance_resolution(options)
            new = {"cfg": st["cfg"], "radius": float(fw.radius), "resolution": float(fw.resolution),
                   "hist": st["hist"] + [list(op)], "nenh": st["nenh"] + (op[0] == "enh"), "depth": st["depth"] + 1,
                   "flags": [op[0]] + (["at_final"] if fw.resolution == rf else [])}
            viol = self.judge(st, new, cname, kw, ri, rf)
            key = (st["cfg"], new["radius"], new["resolution"], new["nenh"])
            out.append((op, key, new, viol))
        return out

    def judge(self, old, new, cname, kw, ri, rf):
        viol = []
        case = {"engine": "E2-radius", "constants": kw, "radius_init": ri, "radius_final": rf, "hist": new["hist"]}
        rad, res = new["radius"], new["resolution"]

        def add(key, what):
            viol.append({"key": key, "what": what, "case": case})

        if not (math.isfinite(rad) and math.isfinite(res)):
            add("radius-nonfinite", f"radius={rad} resolution={res} after {new['hist'][-1]}")
            return viol
        if not (rf <= res):
            add("resolution-below-final", f"resolution {res} < radius_final {rf} after {new['hist'][-1]} ({cname})")
        if not (res <= rad):
            add("radius-below-resolution", f"radius {rad} < resolution {res} after {new['hist'][-1]} ({cname})")
        if res > old["resolution"]:
            add("resolution-increased", f"resolution went from {old['resolution']} to {res} ({cname})")
        return viol


CLIENT = None


def count_reductions():
    """Number of enhance_resolution calls needed to reach radius_final (direct iteration)."""
    viol = []
    n = 0
    for kw in [{}, {"decrease_resolution_factor": 0.5}, {"decrease_resolution_factor": 0.9},
               {"decrease_resolution_factor": 1e-3}, {"large_resolution_threshold": 1 + T},
               {"moderate_resolution_threshold": 200.0}, {"large_resolution_threshold": 1e6}]:
        consts = cmain._set_default_constants(**kw)
        drf = consts["decrease_resolution_factor"]
        for ri, rf in RADII:
            if rf <= 0:
                continue
            fw = make_fw(consts, ri, ri)
            k = 0
            bound = math.ceil(math.log(ri / rf) / math.log(1.0 / drf)) + 2 if ri > rf else 2
            last = fw.resolution
            while fw.resolution > rf and k < 10 * bound + 100:
                fw.enhance_resolution({"radius_final": rf})
                k += 1
                if fw.resolution > last or fw.resolution < rf or fw.radius < fw.resolution:
                    viol.append({"key": "reduction-sequence-incoherent", "what":
                                 f"enhance_resolution #{k}: resolution {last} -> {fw.resolution}, radius {fw.radius}, "
                                 f"radius_final {rf}", "case": {"engine": "E2-count", "constants": kw, "ri": ri, "rf": rf}})
                    break
                last = fw.resolution
            n += 1
            if fw.resolution != rf or k > bound:
                viol.append({"key": "too-many-reductions", "what":
                             f"{k} reductions from {ri} (constants {kw}) leave resolution {fw.resolution}, "
                             f"radius_final {rf}, bound {bound}",
                             "case": {"engine": "E2-count", "constants": kw, "ri": ri, "rf": rf}})
    return viol, n


# ---------------------------------------------------------------- (c) real runs
def e1_roots(tier):
    out = []
    ns = [1, 2] if tier == "quick" else [1, 2, 3]
    for n in ns:
        for pats in [("free",) * n, ("wide",) * n, ("narrow",) + ("wide",) * (n - 1)]:
            for cons in ["none", "lin_le", "ball_le", "ball_eq", "cubic_le", "lin_eq+nl_eq", "nl_vec"]:
                for obj in ["quad", "quad_far", "abs"]:
                    for ri, rf in [(1.0, 1e-6), (1.0, 1.0), (1e3, 1e-3), (1.0, 0.0), (1e-15, 1e-30), (0.5, 1e-2)]:
                        if obj != "quad" and (ri, rf) not in ((1.0, 1e-6), (0.5, 1e-2)):
                            continue
                        opts = {"radius_init": ri, "radius_final": rf}
                        if rf == 0.0 or tier == "quick":
                            opts["maxfev"] = 80 if rf == 0.0 else (150 * n)
                        c = alpha.base_case(n, pats, "in", obj, cons, options=opts)
                        c["monitors"] = ["tr"]
                        c["explore"] = 0
                        out.append(c)
                    for kw in [{"decrease_radius_factor": 0.9}, {"increase_radius_factor": 4.0},
                               {"low_ratio": 0.3, "high_ratio": 0.4}, {"decrease_resolution_factor": 0.5}]:
                        c = alpha.base_case(n, pats, "in", "quad", cons, options={"maxfev": 150 * n}, constants=kw)
                        c["monitors"] = ["tr"]
                        c["explore"] = 0
                        out.append(c)
    # exact merit ties: objectives symmetric about x0, asymmetric constraints (penalty 0 at the start)
    for n in ns:
        for pats in [("free",) * n, ("wide",) * n]:
            x0 = alpha.x0_from(pats, "in")
            for cons in ["ball_le", "cubic_le", "lin_le", "nl_vec"]:
                for kind in ["quad", "abs"]:
                    c = alpha.base_case(n, pats, "in", kind, cons, options={"maxfev": 60 * n})
                    c["obj"] = {"kind": kind, "a": [1.0] * n, "c": list(x0)} if kind == "quad" else \
                        {"kind": "abs", "c": list(x0)}
                    c["monitors"] = ["tr", "centre"]
                    c["explore"] = 0
                    c["tag"]["special"] = "exact-ties"
                    out.append(c)
    # barrier values (NaN regions of the objective) next to ordinary values: the tie tolerance must follow the
    # running least merit, not the merit of the previous centre
    for n in ns:
        for pats in [("wide",) * n, ("free",) * n]:
            for x0 in ("in", "out"):
                for cons in ["lin_le", "ball_le", "cubic_le", "nl_vec", "lin_mixed"]:
                    for nan in ["half", "outball", "inball"]:
                        for scale in ((False, True) if pats[0] == "wide" else (False,)):
                            c = alpha.base_case(n, pats, x0, "quad", cons, nan=nan,
                                                options={"maxfev": 40 * n, "scale": scale})
                            c["monitors"] = ["tr", "centre"]
                            c["explore"] = 0
                            c["tag"]["special"] = "barrier-values"
                            out.append(c)
    # radius_final = 0 on flat objectives: the resolution and the radius decrease until they underflow
    for n in ns:
        for pats in [("free",) * n, ("wide",) * n]:
            for cons in ["none", "lin_le", "ball_le"]:
                for obj in ["const", "abs"]:
                    for r0 in (2.0 ** -10, 2.0 ** -1060):
                        c = alpha.base_case(n, pats, "in", obj, cons,
                                            options={"radius_init": r0, "radius_final": 0.0, "maxfev": 40, "maxiter": 4000})
                        c["monitors"] = ["tr", "centre"]
                        c["explore"] = 0
                        c["tag"]["special"] = "radius-underflow"
                        out.append(c)
    from .. import cover
    out += cover.roots_for(tier, monitors=["tr", "centre"])
    for c in out:
        if "centre" not in c["monitors"]:
            c["monitors"] = c["monitors"] + ["centre"]
    return out


def e1_oracle(rec, table=None):
    viol = []
    case = rec.case
    n_free = None
    rf = oracles.expected_radius_final(rec)
    last_res = None
    fw = rec.framework
    npt = int(rec.build["options"].get("nb_points", 0)) if rec.build else 0
    for i, t in enumerate(rec.tr):
        rad, res, pen = t["radius"], t["resolution"], t["penalty"]
        if not (rf <= res * (1 + 4 * EPS) and res <= rad):
            viol.append({"key": "run:ordering", "what": f"iteration {i + 1}: radius_final={rf} resolution={res} radius={rad}"})
            break
        if last_res is not None and res > last_res:
            viol.append({"key": "run:resolution-increased", "what": f"iteration {i + 1}: resolution {last_res} -> {res}"})
            break
        last_res = res
        if not (math.isfinite(pen) and pen >= 0.0):
            viol.append({"key": "run:penalty", "what": f"iteration {i + 1}: penalty={pen}"})
            break
        m = t["merits"]
        b = t["best_index"]
        # merit values are recomputed by the monitor after a possible base shift: allow ten times the documented
        # tie tolerance for the two extra roundings
        tol = 100.0 * EPS * max(len(m), 2) * max(abs(m[b]), 1.0)
        # ... and the violations are recomputed from x_base + xpt: their rounding errors enter the merit
        # multiplied by the penalty parameter (which is of order 1e28 after a barrier value)
        tol += pen * 100.0 * EPS * t.get("viol_mag", 1.0)
        better = [k for k in range(len(m)) if m[k] < m[b] - tol]
        if better:
            k = better[0]
            viol.append({"key": "run:centre-not-least-merit",
                         "what": f"iteration {i + 1}: centre {b} has merit {m[b]!r} but point {k} has {m[k]!r} "
                                 f"(penalty {pen})"})
            break
    # right after every set_best_index (same merit function, same state, so values are bit-identical to the ones
    # the solver compared): among the points whose merit is exactly minimal the centre has the smallest violation,
    # and the centre's merit is minimal up to the documented tolerance per possible tie replacement
    for j, (b, m, r) in enumerate(rec.notes.get("centres", [])):
        mmin = min(m)
        tol = 10.0 * EPS * max(len(m), 2) * max(abs(m[b]), 1.0)
        if not (m[b] <= mmin + len(m) * tol):
            viol.append({"key": "run:centre-not-least-merit",
                         "what": f"after set_best_index #{j + 1}: centre {b} has merit {m[b]!r}, least merit is {mmin!r}"})
            break
        # exact ties, and no other point within the tie tolerance of the least merit (otherwise the solver's
        # sequential scan may legitimately pass through a near-tie and end on any of the exactly tied points)
        tolmax = 10.0 * EPS * max(len(m), 2) * max(max(abs(v) for v in m), 1.0)
        clean = all(v == mmin or v >= mmin + tolmax for v in m)
        if m[b] == mmin and clean:
            better = [k for k in range(len(m)) if m[k] == mmin and r[k] < r[b]]
            if better:
                viol.append({"key": "run:exact-tie-not-smaller-violation",
                             "what": f"after set_best_index #{j + 1}: points {better} tie the centre {b} exactly in "
                                     f"merit ({mmin!r}) and have a smaller violation ({[r[k] for k in better]} < {r[b]})"})
                break
    for k_geo, best in rec.notes.get("geo_targets", []):
        if k_geo == best:
            viol.append({"key": "run:centre-chosen-for-replacement:geometry",
                         "what": "the geometry-improvement step was asked to replace the trust-region centre"})
            break
    for k_rm, best, with_new in rec.notes.get("removals", []):
        if with_new and k_rm == best:
            viol.append({"key": "run:centre-chosen-for-replacement",
                         "what": "get_index_to_remove(x_new) returned the index of the trust-region centre"})
            break
    if rec.res is not None and int(rec.res.status) == 0 and rec.build is not None:
        res = rec.build["resolution"]
        if res is None or not (abs(res - rf) <= 4 * EPS * rf):
            viol.append({"key": "run:status0-resolution", "what": f"status 0 with resolution {res}, radius_final {rf}"})
    return viol


def _e1_stats(rec, table, stats):
    stats["iterations_checked"] = stats.get("iterations_checked", 0) + len(rec.tr)
    stats["removals_checked"] = stats.get("removals_checked", 0) + len(rec.notes.get("removals", []))
    for b, m, r in rec.notes.get("centres", []):
        stats["centres_checked"] = stats.get("centres_checked", 0) + 1
        tolmax = 10.0 * EPS * max(len(m), 2) * max(max(abs(v) for v in m), 1.0)
        if sum(1 for v in m if v == min(m)) > 1 and all(v == min(m) or v >= min(m) + tolmax for v in m):
            stats["exact_merit_ties"] = stats.get("exact_merit_ties", 0) + 1
    if any(t["penalty"] > 0 for t in rec.tr):
        stats["runs_with_penalty"] = stats.get("runs_with_penalty", 0) + 1


def run_case(case):
    if case.get("engine") == "E2-radius":
        client = RadiusClient(99)
        idx = [i for i, s in enumerate(client.sets) if s[1] == case["constants"] and s[3] == case["radius_init"]
               and s[4] == case["radius_final"]][0]
        st = {"cfg": idx, "radius": case["radius_init"], "resolution": case["radius_init"], "hist": [], "nenh": 0,
              "depth": 0}
        viol = []
        for op in case["hist"]:
            op = tuple(op)
            res = [r for r in client.expand(st) if tuple(r[0]) == op]
            if not res:
                break
            _, key, st, viol = res[0]
        return {"viol": viol, "stats": {}, "digests": [common.sha(case)]}
    if case.get("engine") == "E2-count":
        v, _ = count_reductions()
        return {"viol": [x for x in v if x["case"] == case], "stats": {}, "digests": [common.sha(case)]}
    if case.get("stub"):
        return e1prop.run_case_generic(case, ctrl.invariants, menu=ctrl.menu, horizon=ctrl.horizon,
                                       extra_stats=ctrl.stats)
    return e1prop.run_case_generic(case, e1_oracle, extra_stats=_e1_stats)


def execute(tier, seed, limit=0):
    agg = common.Agg()
    depth = 6 if tier == "quick" else 9
    client = RadiusClient(depth)
    res = e2.bfs(client, max_depth=depth, time_cap=120 if tier == "quick" else 1500)
    agg.viol.extend(res["viol"])
    for st, err in res["errors"]:
        agg.errors.append((None, err))
    v, ncount = count_reductions()
    agg.viol.extend(v)
    rts = alpha.permute(e1_roots(tier) + ctrl.roots(tier), seed)
    if limit:
        rts = rts[:limit]
    for out in common.run_roots(__import__("mc.props.c18", fromlist=["x"]), rts):
        agg.add(out)
    s = agg.stats
    herr = []
    for k in ("iterations_checked", "removals_checked", "runs_with_penalty", "status_0", "ctrl_runs", "ctrl_status_0",
              "centres_checked", "exact_merit_ties"):
        if not s.get(k):
            herr.append(f"non-vacuity counter {k} is zero")
    if not res["flags"].get("at_final"):
        herr.append("no automaton state reached radius_final")
    cov = {
        "states": int(res["states"]), "transitions": int(res["transitions"]),
        "traces_validated_against_impl": int(s.get("iterations_checked", 0)),
        "samples": [{"constants": client.sets[st["cfg"]][1], "radius_init": client.sets[st["cfg"]][3],
                     "radius_final": client.sets[st["cfg"]][4], "history": st["hist"]} for st in res["samples"][:4]]
        or [{"history": []}],
        "exhaustive": bool(res["exhaustive"]), "depth_completed": res["depth_completed"],
        "states_per_depth": res["per_depth"], "cap_hit": res["capped"],
        "configurations": len(client.sets), "operations": len(STEP_CLASSES) * len(RATIOS) + 2,
        "new_states_by_kind": res["flags"], "reduction_count_sequences": ncount,
        "explanation": "automaton of the radius rules explored breadth-first on the real TrustRegion methods for "
                       "every (constants on their boundary lattice) x (radius_init, radius_final) configuration; "
                       "traces_validated_against_impl counts iterations of real runs at which the same invariants, "
                       "the penalty and the centre were checked through monitors",
        "real_runs": {k: int(v) for k, v in sorted(s.items()) if isinstance(v, (int, float)) and not k.startswith("site_")},
        "control_skeleton": {"executions": int(s.get("ctrl_runs", 0)), "choice_points": int(s.get("ctrl_choice_points", 0)),
                             "deviation_bound": 2 if tier == "quick" else 3},
        "evaluations": int(res["transitions"] + s.get("runs", 0)), "distinct_nontrivial": int(res["states"]),
    }
    return agg, cov, herr, rts
