"""C15 - subproblem solvers always return admissible steps."""
import numpy as np

from .. import alpha, common, e5sub

ID = "C15"
LEVEL = "exploration"
ASSUMPTIONS = [
    "the origin is feasible for every instance (bounds contain 0 after the solvers' own clamping, b_I >= 0 for the "
    "tangential solver), as the statement requires",
    "tolerances: bounds exact; norm <= delta*(1+1e-8); A_I s <= b_I + 1e-8*max(1,|b|,|A_row|*delta); "
    "|A_E s| <= 1e-8*|A_row|*max(|s|, 1e-8*delta) (a step of rounding-noise length relative to the radius is "
    "judged on the scale of the radius)",
    "lattice magnitudes 2^-30..2^30 for gradients and 2^-20..2^20 for joint scalings (twelve decades)",
]
RULE = ("Cartesian lattice per solver: all per-variable bound patterns {free,[0,inf),(-inf,0],{0},inside,wide}^n x "
        "gradient components {0,+-1,+-2^-30,+-2^30} x Hessians {0,I,-I,diag(+-1),rank one,indefinite} x joint "
        "scalings {2^-20,1,2^20} of (g,H) and of (bounds,radius) x inequality rows {none,active,small,large,parallel,"
        "opposite} x equality rows {none,one,rank-deficient pair} x improve_tcg; n<=3 quick (n=3 thinned), n<=6 "
        "thorough. Non-trivial = instance whose returned step is non-zero; distinct = distinct (instance, step) pair.")
CHUNK = 2


def check(inst, s, err, ctx):
    fn = inst["fn"]
    if err is not None:
        return [("exception:" + fn + ":" + err.split(":")[0], f"{fn} raised {err}")]
    out = []
    if s.shape != (inst["n"],) or not np.all(np.isfinite(s)):
        return [("nonfinite-step:" + fn, f"{fn} returned {s.tolist()}")]
    xl, xu, delta = ctx["xl"], ctx["xu"], ctx["delta"]
    if np.any(s < xl) or np.any(s > xu):
        out.append(("bounds:" + fn, f"{fn} step {s.tolist()} leaves [{xl.tolist()}, {xu.tolist()}]"))
    nrm = float(np.linalg.norm(s))
    if nrm > delta * (1.0 + 1e-8):
        out.append(("radius:" + fn, f"{fn} step has norm {nrm} > delta {delta}"))
    if fn == "constrained":
        aub, bub, aeq = ctx["aub"], ctx["bub"], ctx["aeq"]
        if aub.size:
            lhs = aub @ s
            tol = 1e-8 * np.maximum(1.0, np.maximum(np.abs(bub), np.linalg.norm(aub, axis=1) * delta))
            bad = (bub >= 0) & (lhs > bub + tol)
            if np.any(bad):
                out.append(("ineq:" + fn, f"{fn} step violates an inequality that held at the origin by "
                                          f"{float(np.max(lhs - bub)):.3g}"))
        if aeq.size:
            r = np.abs(aeq @ s)
            tol = 1e-8 * np.linalg.norm(aeq, axis=1) * max(nrm, 1e-8 * delta)
            if np.any(r > tol):
                out.append(("eq:" + fn, f"{fn} step leaves the null space of the equalities by {float(np.max(r)):.3g} "
                                        f"(|s|={nrm:.3g})"))
    return out


def run_case(root):
    if "inst" in root:  # replay of a single instance
        insts = [root["inst"]]
    else:
        insts = e5sub.instances(root)
    stats = {"calls": 0, "nonzero_steps": 0, "on_boundary": 0, "at_bound": 0}
    stats["calls_" + root["fn"] if "fn" in root else "calls_replay"] = 0
    viol = {}
    maxratio = 0.0
    digs = set()
    for inst in insts:
        with common.watchdog(30):
            s, err, ctx = e5sub.solve(inst)
        stats["calls"] += 1
        k = "calls_" + inst["fn"]
        stats[k] = stats.get(k, 0) + 1
        if s is not None and np.any(s != 0):
            stats["nonzero_steps"] += 1
            digs.add(common.sha([inst, s.tolist()]))
            nrm = float(np.linalg.norm(s))
            maxratio = max(maxratio, nrm / ctx["delta"])
            if nrm >= ctx["delta"] * (1 - 1e-12):
                stats["on_boundary"] += 1
            if np.any((s == ctx["xl"]) & (ctx["xl"] < 0)) or np.any((s == ctx["xu"]) & (ctx["xu"] > 0)):
                stats["at_bound"] += 1
        for key, what in check(inst, s, err, ctx):
            if key not in viol:
                viol[key] = {"key": key, "what": what, "case": {"inst": inst, "fn": inst["fn"]}}
    return {"viol": list(viol.values()), "stats": stats, "nontrivial": list(digs)[:0],
            "extra": {"maxratio": maxratio, "nz": len(digs)}}


def roots(tier, seed):
    return alpha.permute(e5sub.roots(tier), seed)


def coverage(agg, tier, roots_):
    s = agg.stats
    herr = []
    for k in ["calls_tangential", "calls_constrained", "calls_normal", "calls_cauchy", "calls_spider",
              "nonzero_steps", "on_boundary", "at_bound"]:
        if not s.get(k):
            herr.append(f"non-vacuity counter {k} is zero")
    nz = sum(e["nz"] for e in agg.extra)
    cov = {
        "evaluations": int(s.get("calls", 0)),
        "distinct_nontrivial": int(nz),
        "rule": RULE,
        "exhaustive": True,
        "roots": len(roots_),
        "max_norm_over_radius_observed": max((e["maxratio"] for e in agg.extra), default=0.0),
        "non_vacuity": {k: int(v) for k, v in sorted(s.items())},
        "samples": [next(e5sub.instances(r)) for r in roots_[:3]],
    }
    return cov, herr
