"""C17 - two-sided user constraints are translated faithfully into the internal form."""
import itertools
import math
import warnings

import numpy as np
from scipy.optimize import LinearConstraint, NonlinearConstraint

from .. import alpha, common

cobyqa = common.bind_repo()
from cobyqa.problem import LinearConstraints, NonlinearConstraints  # noqa: E402

ID = "C17"
LEVEL = "exploration"
INF = math.inf
NAN = math.nan
A_, B_ = -0.5, 1.0
ASSUMPTIONS = [
    "function values are scripted through the point (f_j(x) = the slice of x owned by object j), so the harness "
    "knows the exact value of every constraint component",
    "equality means |ub-lb| <= the code's own get_arrays_tol; for equalities the internal violation |v-mid| may "
    "differ from the interval excess by at most |ub-lb|",
    "wrong-side infinite limits (lb=+inf, ub=-inf) are enumerated for linear constraints only, where the statement "
    "says they are dropped",
]
RULE = ("every assignment of the 10 limit patterns {(-inf,inf),(-inf,b),(a,inf),(a,b),(a,a),(a,a+ulp),(NaN,b),(a,NaN),"
        "(NaN,NaN),(a,a+2^-21)} (+2 wrong-side patterns for linear) to 1..3 components (4 thorough) of one constraint object, "
        "linear and nonlinear, x every value vector over {below lb, lb, inside, ub, above ub}; scalar-broadcast limits; "
        "NaN coefficients; and every ordered sequence of 0..2 linear and 0..2 nonlinear objects (3 thorough) from a "
        "6-object menu through minimize(maxfev=1) at 25 points; the one- and two-object sequences again with every "
        "non-empty subset of the two variables fixed by equal bounds at every value, with and without scale=True. Non-trivial = (pattern, values) pair with a positive "
        "excess; distinct = distinct (configuration, value vector).")

PATS = [(-INF, INF), (-INF, B_), (A_, INF), (A_, B_), (A_, A_), (A_, float(np.nextafter(A_, INF))),
        (NAN, B_), (A_, NAN), (NAN, NAN),
        # a narrow but genuine interval (relative width ~1e-6): two inequalities, not an equality
        (A_, A_ + 2.0 ** -21)]
LIN_EXTRA = [(INF, INF), (-INF, -INF)]
VALS = [A_ - 1.0, A_, 0.25, B_, B_ + 1.0]


def arrays_tol(*arrays):
    size = max(a.size for a in arrays)
    weight = max(float(np.max(np.abs(a[np.isfinite(a)]), initial=1.0)) for a in arrays)
    return 10.0 * np.finfo(float).eps * max(size, 1.0) * weight


def expected(lb, ub, linear):
    """(m_ub, m_eq, per-component (kind, lo, hi))."""
    lb = np.array(lb, float)
    ub = np.array(ub, float)
    tol = arrays_tol(lb, ub)
    with np.errstate(invalid="ignore"):
        eq = np.abs(ub - lb) <= tol
    m_ub = m_eq = 0
    comps = []
    for i in range(lb.size):
        lo, hi = lb[i], ub[i]
        if eq[i]:
            m_eq += 1
            comps.append(("eq", lo, hi))
            continue
        lo_on = not math.isnan(lo) and lo > -INF and (not linear or lo < INF)
        hi_on = not math.isnan(hi) and hi < INF and (not linear or hi > -INF)
        m_ub += int(lo_on) + int(hi_on)
        comps.append(("in", lo if lo_on else -INF, hi if hi_on else INF))
    return m_ub, m_eq, comps


def excess(comps, v):
    ex = 0.0
    slack = 0.0
    for (kind, lo, hi), x in zip(comps, v):
        if kind == "eq":
            ex = max(ex, abs(x - 0.5 * (lo + hi)))
            slack = max(slack, abs(hi - lo))
        else:
            ex = max(ex, lo - x, x - hi, 0.0)
    return ex, slack


def roots(tier, seed):
    out = []
    kmax = 3 if tier == "quick" else 4
    for kind in ("nl", "lin"):
        pats = list(range(len(PATS))) + ([len(PATS), len(PATS) + 1] if kind == "lin" else [])
        for k in range(1, kmax + 1):
            for first in pats:
                if k == 1:
                    out.append({"part": "single", "kind": kind, "k": 1, "first": [first]})
                else:
                    for second in pats:
                        if k == 2:
                            out.append({"part": "single", "kind": kind, "k": 2, "first": [first, second]})
                        elif kind == "lin" and (first >= len(PATS) or second >= len(PATS)) and k > 3:
                            continue
                        else:
                            out.append({"part": "single", "kind": kind, "k": k, "first": [first, second]})
    # scalar limits broadcast against vector values, NaN coefficients
    for kind in ("nl", "lin"):
        for p in range(len(PATS)):
            out.append({"part": "broadcast", "kind": kind, "p": p})
    out.append({"part": "nancoef"})
    out.append({"part": "aliased"})
    # sequences of objects through minimize
    nmax = 2 if tier == "quick" else 3
    for nl in range(nmax + 1):
        for nn in range(nmax + 1):
            if nl + nn == 0:
                continue
            for order in sorted(set(itertools.permutations("L" * nl + "N" * nn))):
                for first in range(6):
                    out.append({"part": "seq", "order": "".join(order), "first": first})
    # the same objects with variables fixed by equal bounds, with and without scaling (one or two objects)
    for order in ("L", "N", "LL", "LN", "NL") + (("NN", "LLN") if tier == "thorough" else ()):
        for first in range(6):
            out.append({"part": "fixed", "order": order, "first": first})
    return alpha.permute(out, seed)


def allp(kind):
    return PATS + (LIN_EXTRA if kind == "lin" else [])


def check_single(kind, pidx, stats, viol):
    table = allp(kind)
    lb = [table[i][0] for i in pidx]
    ub = [table[i][1] for i in pidx]
    k = len(pidx)
    m_ub, m_eq, comps = expected(lb, ub, kind == "lin")
    case = {"part": "one", "kind": kind, "pidx": list(pidx)}
    with warnings.catch_warnings():
        warnings.simplefilter("ignore")
        with np.errstate(all="ignore"):
            if kind == "nl":
                obj = NonlinearConstraints([NonlinearConstraint(lambda x: np.array(x, float), np.array(lb),
                                                                np.array(ub))], False, False)
                obj(np.array([VALS[2]] * k))
                got = (obj.m_ub, obj.m_eq)
            else:
                obj = LinearConstraints([LinearConstraint(np.eye(k), np.array(lb), np.array(ub))], k, False)
                got = (obj.m_ub, obj.m_eq)
            stats["configs"] = stats.get("configs", 0) + 1
            if got != (m_ub, m_eq):
                viol.setdefault(f"row-count:{kind}", {
                    "key": f"row-count:{kind}", "case": case,
                    "what": f"{kind} limits lb={lb} ub={ub}: {got[0]} inequality / {got[1]} equality rows, "
                            f"expected {m_ub} / {m_eq}"})
                return
            for v in itertools.product(VALS, repeat=k):
                x = np.array(v, float)
                if kind == "nl":
                    cub, ceq = obj(x)
                else:
                    cub = obj.a_ub @ x - obj.b_ub
                    ceq = obj.a_eq @ x - obj.b_eq
                internal = max(float(np.max(cub, initial=0.0)), float(np.max(np.abs(ceq), initial=0.0)))
                ex, slack = excess(comps, v)
                stats["evals"] = stats.get("evals", 0) + 1
                if ex > 0:
                    stats["positive_excess"] = stats.get("positive_excess", 0) + 1
                if not (abs(internal - ex) <= slack + 4e-16 * max(1.0, abs(ex))):
                    viol.setdefault(f"violation-value:{kind}", {
                        "key": f"violation-value:{kind}", "case": dict(case, v=list(v)),
                        "what": f"{kind} limits lb={lb} ub={ub}, values {list(v)}: internal violation {internal}, "
                                f"interval excess {ex}"})
                    return
                if kind == "lin":
                    mv = float(obj.maxcv(x))
                    if not (abs(mv - ex) <= slack + 4e-16 * max(1.0, abs(ex))):
                        viol.setdefault("maxcv-value:lin", {
                            "key": "maxcv-value:lin", "case": dict(case, v=list(v)),
                            "what": f"LinearConstraints.maxcv={mv} but interval excess is {ex} (lb={lb} ub={ub} v={list(v)})"})
                        return
                else:
                    mv = float(obj.maxcv(x, cub, ceq))
                    if not (abs(mv - ex) <= slack + 4e-16 * max(1.0, abs(ex))):
                        viol.setdefault("maxcv-value:nl", {
                            "key": "maxcv-value:nl", "case": dict(case, v=list(v)),
                            "what": f"NonlinearConstraints.maxcv={mv} but interval excess is {ex} (lb={lb} ub={ub} v={list(v)})"})
                        return


SEQ_OBJS = [
    ("c0", [1]), ("c1", [2]), ("c0", [3]), ("c1", [4]), ("c0", [6]), ("both", [3, 1]),
]


def make_obj(kind, spec):
    comp, pidx = spec
    lb = np.array([PATS[i][0] for i in pidx])
    ub = np.array([PATS[i][1] for i in pidx])
    rows = {"c0": [[1.0, 0.0]], "c1": [[0.0, 1.0]], "both": [[1.0, 0.0], [0.0, 1.0]]}[comp]
    A = np.array(rows)
    if kind == "L":
        return LinearConstraint(A, lb, ub), (A, lb, ub)
    return NonlinearConstraint(lambda x, A=A: A @ np.asarray(x, float), lb, ub), (A, lb, ub)


def check_seq(order, first, stats, viol):
    # sequences of 5 or 6 objects (thorough) use a 2-object menu for the tail to stay enumerable
    tail = range(len(SEQ_OBJS)) if len(order) <= 4 else (2, 3)
    menus = [tail] * (len(order) - 1)
    for rest in itertools.product(*menus):
        idx = (first,) + tuple(rest)
        objs = []
        metas = []
        for kind, i in zip(order, idx):
            o, m = make_obj(kind, SEQ_OBJS[i])
            objs.append(o)
            metas.append((kind, m))
        case = {"part": "seq1", "order": order, "idx": list(idx)}
        for v in itertools.product(VALS, repeat=2):
            x0 = np.array(v, float)
            ex = 0.0
            slack = 0.0
            for kind, (A, lb, ub) in metas:
                _, _, comps = expected(lb, ub, kind == "L")
                e, s = excess(comps, A @ x0)
                ex = max(ex, e)
                slack = max(slack, s)
            with warnings.catch_warnings():
                warnings.simplefilter("ignore")
                with np.errstate(all="ignore"):
                    try:
                        res = cobyqa.minimize(lambda x: 0.0, x0, constraints=objs, options={"maxfev": 1})
                        mv = float(res.maxcv)
                    except Exception as e:  # noqa
                        viol.setdefault("seq-exception", {"key": "seq-exception", "case": dict(case, v=list(v)),
                                                          "what": f"minimize raised {type(e).__name__}: {e}"})
                        return
            stats["seq_runs"] = stats.get("seq_runs", 0) + 1
            if not (abs(mv - ex) <= slack + 4e-16 * max(1.0, abs(ex))):
                viol.setdefault("res-maxcv:seq", {
                    "key": "res-maxcv:seq", "case": dict(case, v=list(v)),
                    "what": f"objects {order}{list(idx)} at x0={list(v)}: res.maxcv={mv}, largest interval excess {ex}"})
                return


def check_fixed(order, first, stats, viol):
    """The same objects when some variables are fixed by equal bounds (the solver then eliminates them and
    re-states the linear constraints in the remaining variables), with and without scaling: rows that involve
    fixed variables only become constants and must still count."""
    for rest in itertools.product(range(len(SEQ_OBJS)), repeat=len(order) - 1):
        idx = (first,) + tuple(rest)
        objs, metas = [], []
        for kind, i in zip(order, idx):
            o, m = make_obj(kind, SEQ_OBJS[i])
            objs.append(o)
            metas.append((kind, m))
        for fixed in ((0,), (1,), (0, 1)):
            for scale in (False, True):
                for v in itertools.product(VALS, repeat=2):
                    # fixed variables sit at v[i] (lb = ub = v[i]); the others start inside [-4, 4]
                    lbs = [v[i] if i in fixed else -4.0 for i in range(2)]
                    ubs = [v[i] if i in fixed else 4.0 for i in range(2)]
                    x0 = np.array(v, float)
                    case = {"part": "fixed1", "order": order, "idx": list(idx), "fixed": list(fixed), "scale": scale,
                            "v": list(v)}
                    with warnings.catch_warnings():
                        warnings.simplefilter("ignore")
                        with np.errstate(all="ignore"):
                            try:
                                res = cobyqa.minimize(lambda x: 0.0, x0, bounds=list(zip(lbs, ubs)), constraints=objs,
                                                      options={"maxfev": 1, "scale": scale})
                                mv = float(res.maxcv)
                            except Exception as e:  # noqa
                                viol.setdefault("fixed-exception", {"key": "fixed-exception", "case": case,
                                                                    "what": f"minimize raised {type(e).__name__}: {e}"})
                                return
                    # the single evaluation is made at the returned point (the solver may move the free coordinates
                    # of x0 away from nearby bounds); the fixed coordinates must be the fixed values
                    xr = np.asarray(res.x, float)
                    if any(xr[i] != v[i] for i in fixed):
                        viol.setdefault("fixed-value-changed", {"key": "fixed-value-changed", "case": case,
                                                                "what": f"a fixed variable was returned as {xr.tolist()}"})
                        return
                    ex = slack = 0.0
                    for kind, (A, lb, ub) in metas:
                        _, _, comps = expected(lb, ub, kind == "L")
                        e, sl = excess(comps, A @ xr)
                        ex, slack = max(ex, e), max(slack, sl)
                    stats["fixed_runs"] = stats.get("fixed_runs", 0) + 1
                    if ex > 0:
                        stats["fixed_positive_excess"] = stats.get("fixed_positive_excess", 0) + 1
                    # scaling maps the free variables through an affine map and back: a few ulps of the values
                    tol = slack + (4e-16 if not scale else 4e-15) * max(1.0, abs(ex), 4.0)
                    if not (abs(mv - ex) <= tol):
                        viol.setdefault("res-maxcv:fixed", {
                            "key": "res-maxcv:fixed", "case": case,
                            "what": f"objects {order}{list(idx)}, variables {list(fixed)} fixed at {[v[i] for i in fixed]}"
                                    f"{' (scale=True)' if scale else ''}, evaluated at {xr.tolist()}: res.maxcv={mv}, largest interval "
                                    f"excess {ex}"})
                        return


def check_broadcast(kind, p, stats, viol):
    lo, hi = PATS[p]
    k = 3
    m_ub, m_eq, comps = expected([lo] * k, [hi] * k, kind == "lin")
    case = {"part": "broadcast", "kind": kind, "p": p}
    with warnings.catch_warnings():
        warnings.simplefilter("ignore")
        with np.errstate(all="ignore"):
            if kind == "nl":
                cons = NonlinearConstraint(lambda x: np.array(x, float), lo, hi)
            else:
                cons = LinearConstraint(np.eye(k), lo, hi)
            for v in itertools.product(VALS, repeat=k):
                x0 = np.array(v, float)
                try:
                    res = cobyqa.minimize(lambda x: 0.0, x0, constraints=cons, options={"maxfev": 1})
                except Exception as e:  # noqa
                    viol.setdefault("broadcast-exception", {"key": "broadcast-exception", "case": case,
                                                            "what": f"scalar limits ({lo},{hi}) on a {kind} constraint: "
                                                                    f"{type(e).__name__}: {e}"})
                    return
                ex, slack = excess(comps, v)
                stats["broadcast_runs"] = stats.get("broadcast_runs", 0) + 1
                if not (abs(float(res.maxcv) - ex) <= slack + 4e-16 * max(1.0, abs(ex))):
                    viol.setdefault(f"broadcast-value:{kind}", {
                        "key": f"broadcast-value:{kind}", "case": dict(case, v=list(v)),
                        "what": f"scalar limits ({lo},{hi}) broadcast over 3 components, values {list(v)}: "
                                f"res.maxcv={res.maxcv}, excess {ex}"})
                    return


def check_nancoef(stats, viol):
    A = np.array([[1.0, NAN], [NAN, 1.0]])
    obj = LinearConstraints([LinearConstraint(A, [-INF, A_], [B_, INF])], 2, False)
    stats["nancoef"] = 1
    for v in itertools.product(VALS, repeat=2):
        x = np.array(v)
        want = max(x[0] - B_, A_ - x[1], 0.0)
        got = max(float(np.max(obj.a_ub @ x - obj.b_ub, initial=0.0)), 0.0)
        if got != want:
            viol.setdefault("nan-coefficient", {"key": "nan-coefficient", "case": {"part": "nancoef", "v": list(v)},
                                                "what": f"NaN coefficients are not treated as 0: violation {got}, expected {want}"})
            return


def check_aliased(stats, viol):
    """lb and ub given as one and the same array object (equalities), with a NaN entry switching a component off."""
    for kind in ("nl", "lin"):
        for template in ([A_, NAN, B_], [NAN, A_], [B_, B_, NAN]):
            k = len(template)
            b = np.array(template, float)
            keep = b.copy()
            _, _, comps = expected(b, b, kind == "lin")
            if kind == "nl":
                cons = NonlinearConstraint(lambda x: np.array(x, float), b, b)
            else:
                cons = LinearConstraint(np.eye(k), b, b)
            for v in itertools.product(VALS[1:4], repeat=k):
                x0 = np.array(v, float)
                with warnings.catch_warnings():
                    warnings.simplefilter("ignore")
                    with np.errstate(all="ignore"):
                        try:
                            res = cobyqa.minimize(lambda x: 0.0, x0, constraints=cons, options={"maxfev": 1})
                        except Exception as e:  # noqa
                            viol.setdefault("aliased-exception", {"key": "aliased-exception", "case": {"part": "aliased"},
                                                                  "what": f"{type(e).__name__}: {e}"})
                            return
                ex, slack = excess(comps, v)
                stats["aliased_runs"] = stats.get("aliased_runs", 0) + 1
                if not (abs(float(res.maxcv) - ex) <= slack + 4e-16 * max(1.0, abs(ex))):
                    viol.setdefault(f"aliased-limits:{kind}", {
                        "key": f"aliased-limits:{kind}", "case": {"part": "aliased", "kind": kind, "v": list(v)},
                        "what": f"{kind} constraint with lb and ub the same array {template}: res.maxcv={res.maxcv} "
                                f"at values {list(v)}, interval excess {ex}"})
                    return
            if not np.array_equal(b, keep, equal_nan=True):
                viol.setdefault("aliased-limits-mutated", {
                    "key": "aliased-limits-mutated", "case": {"part": "aliased", "kind": kind},
                    "what": f"the caller's limit array {template} was modified to {b.tolist()}"})
                return


def run_case(root):
    stats = {}
    viol = {}
    part = root["part"]
    if part == "single":
        kind, k, first = root["kind"], root["k"], root["first"]
        table = allp(kind)
        rest = k - len(first)
        for tail in itertools.product(range(len(table)), repeat=rest):
            check_single(kind, list(first) + list(tail), stats, viol)
    elif part == "one":
        check_single(root["kind"], root["pidx"], stats, viol)
    elif part == "seq":
        check_seq(root["order"], root["first"], stats, viol)
    elif part == "seq1":
        check_seq(root["order"], root["idx"][0], stats, viol)
    elif part == "fixed":
        check_fixed(root["order"], root["first"], stats, viol)
    elif part == "fixed1":
        check_fixed(root["order"], root["idx"][0], stats, viol)
    elif part == "broadcast":
        check_broadcast(root["kind"], root["p"], stats, viol)
    elif part == "nancoef":
        check_nancoef(stats, viol)
    elif part == "aliased":
        check_aliased(stats, viol)
    return {"viol": list(viol.values()), "stats": stats}


def coverage(agg, tier, roots_):
    s = agg.stats
    herr = [f"non-vacuity counter {k} is zero" for k in
            ("configs", "evals", "positive_excess", "seq_runs", "broadcast_runs", "nancoef", "aliased_runs", "fixed_runs",
             "fixed_positive_excess") if not s.get(k)]
    total = int(s.get("evals", 0) + s.get("seq_runs", 0) + s.get("broadcast_runs", 0) + s.get("fixed_runs", 0))
    cov = {"evaluations": total, "distinct_nontrivial": int(s.get("positive_excess", 0)), "rule": RULE,
           "exhaustive": True, "roots": len(roots_), "limit_configurations": int(s.get("configs", 0)),
           "non_vacuity": {k: int(v) for k, v in sorted(s.items())},
           "samples": roots_[:3]}
    return cov, herr
