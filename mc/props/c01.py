"""C01 - bound constraints are never violated anywhere the user can observe, by construction."""
import numpy as np

from .. import alpha, e1prop, oracles

ID = "C01"
LEVEL = "exploration"
ASSUMPTIONS = [
    "user space: exact comparison of every point received by objective / constraints / callback and of res.x",
    "'by construction': the argument of every Problem.__call__ (the solver's trial point before projection) is "
    "compared with the solver's own box with a rounding allowance of 10*eps*n*max(1,|bound|,|x|)",
    "numeric data restricted to the dyadic alphabet; n <= 2 quick, <= 3 thorough",
]
RULE = ("all per-variable bound-pattern assignments {free, lower, upper, wide, narrower than radius_init, fixed, "
        "fixed within rounding}^n x x0 {inside, on a bound, outside} x objective {quadratic with interior / exterior "
        "minimiser, linear, non-smooth, noisy, NaN region} x constraints {none, linear, ball <=, ball =, cubic <= (many "
        "second-order-correction steps)} x scale x nb_points {n+1, 2n+1, full}, fault-free; plus one NaN/inf deviation "
        "at every evaluation on a slice (everywhere in thorough). Non-trivial = run with a trial point within 1e-9 of a "
        "bound; distinct = distinct bit-exact observation.")


# "wide" is replaced by boxes with non-dyadic end points so that scaling involves rounding
C01_PATS = ["free", "lo", "up", "oddw", "narrow", "fixed", "fixulp", "oddn"]


def roots(tier, seed):
    out = []
    ns = [1, 2] if tier == "quick" else [1, 2, 3]
    for n in ns:
        assigns = alpha.pattern_assignments(n, pats=C01_PATS, up_to_perm=(n == 3))
        npts_all = sorted({n + 1, 2 * n + 1, (n + 1) * (n + 2) // 2})
        for pats in assigns:
            if all(p in alpha.FIXED_PATS for p in pats):
                continue
            finite = all(np.isfinite(alpha.PATTERNS[p][0]) and np.isfinite(alpha.PATTERNS[p][1])
                         for p in pats if p not in alpha.FIXED_PATS)
            nf = sum(1 for p in pats if p not in alpha.FIXED_PATS)
            npts_all = sorted({nf + 1, 2 * nf + 1, (nf + 1) * (nf + 2) // 2})
            for where in ["in", "on", "out"]:
                for obj, nan in [("quad", None), ("quad_far", None), ("lin", None), ("abs", None), ("noisy", None),
                                 ("quad", "half")]:
                    for cons in ["none", "lin_le", "ball_le", "ball_eq", "cubic_le", "lin+cubic"]:
                        for scale in ([False, True] if finite else [False]):
                            for npt in npts_all:
                                # thinning of the full cross product (kept complete on its 2-way projections)
                                if cons == "lin+cubic" and (obj not in ("quad", "lin") or npt != 2 * nf + 1):
                                    continue
                                if npt != 2 * nf + 1 and (obj != "quad" or nan or where == "on"):
                                    continue
                                if nan and cons in ("lin_le", "ball_eq", "lin+cubic"):
                                    continue
                                if obj == "noisy" and (cons not in ("none", "ball_le") or npt != 2 * nf + 1):
                                    continue
                                if n == 3 and (where == "on" or obj in ("abs", "noisy") or npt != 2 * nf + 1):
                                    continue
                                opts = {"scale": scale, "nb_points": npt}
                                opts["maxfev"] = (30 * n + 10) if tier == "quick" else 120 * n
                                case = alpha.base_case(n, pats, where, obj, cons, options=opts, nan=nan,
                                                       callback={"sig": "xk", "behav": "passive"})
                                case["monitors"] = ["pts"]
                                dev = (obj == "quad" and not nan and cons in ("none", "ball_eq", "cubic_le")
                                       and npt == 2 * nf + 1 and where == "in")
                                if tier == "quick":
                                    dev = dev and n == 1 and not scale
                                else:
                                    dev = dev and n <= 2
                                case["explore"] = 1 if dev else 0
                                out.append(case)
    # boxes made of the largest finite numbers ("no bound" in some code bases): xu - xl and xu + xl overflow
    for n in ns:
        for pats in [("fmax",) * n, ("fmaxup",) * n, (("fmax", "wide", "fmaxup")[:n] if n > 1 else ("fmax",))]:
            for where in ["in", "on", "out"]:
                for cons in ["none", "lin_le", "ball_le"]:
                    for scale in (False, True):
                        case = alpha.base_case(n, pats, where, "quad", cons,
                                               options={"scale": scale, "maxfev": 20 * n + 10},
                                               callback={"sig": "xk", "behav": "passive"})
                        case["monitors"] = ["pts"]
                        case["explore"] = 0
                        case["tag"]["special"] = "largest-finite-bounds"
                        out.append(case)
    from .. import cover
    out += cover.roots_for(tier, monitors=["pts"])
    return alpha.permute(out, seed)


def _stats(rec, table, stats):
    pb = rec.pb
    if pb is None:
        return
    xl = np.asarray(pb.bounds.xl, float)
    xu = np.asarray(pb.bounds.xu, float)
    near_any = False
    for p in rec.pcalls:
        x = p["x"]
        if x.shape != xl.shape:
            continue
        with np.errstate(invalid="ignore"):
            near = bool(np.any(np.abs(x - xl) <= 1e-9) or np.any(np.abs(x - xu) <= 1e-9))
        if near:
            near_any = True
            k = "near_bound_" + str(p["kind"])
            stats[k] = stats.get(k, 0) + 1
    if near_any:
        stats["runs_touching_bounds"] = stats.get("runs_touching_bounds", 0) + 1


def run_case(case):
    out = e1prop.run_case_generic(case, oracles.c01, extra_stats=_stats)
    return out


def coverage(agg, tier, roots_):
    need = ["near_bound_init", "near_bound_tr", "near_bound_soc", "near_bound_geo", "evals_soc", "deviated_runs"]
    return e1prop.coverage_generic(agg, tier, roots_, RULE, need=need, dev_bound=1)
