"""C19 - options and constants are validated and completed consistently."""
import itertools
import math
import sys
import warnings

import numpy as np

from .. import alpha, common, refs

cobyqa = common.bind_repo()
import cobyqa.main as cmain  # noqa: E402

ID = "C19"
LEVEL = "exploration"
INF = math.inf
T = 2.0 ** -20
ASSUMPTIONS = [
    "reference table of domains and coupling rules transcribed from the minimize docstring and the statement of C19 "
    "(mc/props/c19.py); the documented defaults are parsed from the docstring at run time and cross-checked",
    "NaN is not on the lattice; values are Python/NumPy floats, ints and bools",
    "independence beyond pairs (triples in thorough) is argued, not enumerated",
    "when variables are fixed by the bounds nb_points is not supplied (the statement does not say which n counts)",
]
RULE = ("every setting alone on its boundary lattice (below, at, just inside, typical, just inside the other end, at, "
        "above); every pair of the 33 settings x 3 x 3 values, coupled pairs over their full lattices (all order "
        "relations); thorough: every triple; every subset of each coupling group; unknown names; each invalid value "
        "combined with each early exit of minimize, n in {1,2,3}. Non-trivial = configuration with at least one "
        "supplied setting at or beyond a domain boundary; distinct = distinct configuration.")

# ---- reference table -------------------------------------------------------------------------
OPEN01 = ("open01", [-0.5, 0.0, T, 0.5, 1.0 - T, 1.0, 1.5])
GT1 = ("gt1", [0.5, 1.0, 1.0 + T, 3.0, 1e6])
GE1 = ("ge1", [0.5, 1.0 - T, 1.0, 1.0 + T, 3.0, 1e6])
GE0 = ("ge0", [-1.0, -T, 0.0, T, 10.0, 1e6])
GT0 = ("gt0", [-1.0, 0.0, 2.0 ** -30, 1.0, 1e6])
POSINT = ("posint", [-1, 0, 1, 7, 10 ** 6])
BOOL = ("bool", [False, True, 0, 1])
ANY = ("any", [-INF, 0.0, 1e30])
TOL = ("any", [0.0, 1e-8, 1.0])


def in_domain(dom, v):
    if dom == "open01":
        return 0.0 < v < 1.0
    if dom == "gt1":
        return v > 1.0
    if dom == "ge1":
        return v >= 1.0
    if dom == "ge0":
        return v >= 0.0
    if dom in ("gt0", "posint"):
        return v > 0
    return True


CONSTS = {
    "decrease_radius_factor": OPEN01, "increase_radius_factor": GT1, "increase_radius_threshold": GT1,
    "decrease_radius_threshold": GT1, "decrease_resolution_factor": OPEN01, "large_resolution_threshold": GT1,
    "moderate_resolution_threshold": GT1, "low_ratio": OPEN01, "high_ratio": OPEN01, "very_low_ratio": OPEN01,
    "penalty_increase_threshold": GE1, "penalty_increase_factor": GT1, "short_step_threshold": OPEN01,
    "low_radius_factor": OPEN01, "byrd_omojokun_factor": OPEN01, "threshold_ratio_constraints": GT1,
    "large_shift_factor": GE0, "large_gradient_factor": GT1, "resolution_factor": GT1, "improve_tcg": BOOL,
}
OPTS = {
    "disp": BOOL, "maxfev": POSINT, "maxiter": POSINT, "target": ANY, "feasibility_tol": TOL,
    "radius_init": GT0, "radius_final": GE0, "nb_points": ("npt", None), "scale": BOOL, "filter_size": POSINT,
    "store_history": BOOL, "history_size": POSINT, "debug": BOOL,
}
# coupling rules: (a, b, relation that must hold between completed values)
COUPLED = [
    ("radius_final", "radius_init", "le"),
    ("decrease_radius_threshold", "increase_radius_factor", "lt"),
    ("moderate_resolution_threshold", "large_resolution_threshold", "le"),
    ("low_ratio", "high_ratio", "le"),
    ("penalty_increase_threshold", "penalty_increase_factor", "le"),
]


def rel_ok(rel, a, b):
    return a < b if rel == "lt" else a <= b


def lattice(name, n):
    if name == "nb_points":
        mx = (n + 1) * (n + 2) // 2
        return sorted({-1, 0, 1, n, n + 1, 2 * n + 1, mx, mx + 1})
    return (OPTS.get(name) or CONSTS[name])[1]


def valid_value(name, v, n):
    if name == "nb_points":
        return n + 1 <= v <= (n + 1) * (n + 2) // 2
    return in_domain((OPTS.get(name) or CONSTS[name])[0], v)


def three(name, n):
    """below / typical / above (or boundary) representatives for pair enumeration."""
    lat = lattice(name, n)
    return [lat[0], lat[len(lat) // 2], lat[-1]]


def ref_valid(cfg, n):
    for k, v in cfg.items():
        if not valid_value(k, v, n):
            return False
    for a, b, rel in COUPLED:
        if a in cfg and b in cfg and not rel_ok(rel, cfg[a], cfg[b]):
            return False
    return True


_DEFAULTS = {}


def defaults(n):
    if n not in _DEFAULTS:
        raw = refs.doc_defaults(cobyqa.minimize.__doc__)
        names = set(OPTS) | set(CONSTS)
        if set(raw) != names:
            raise common.HarnessError("docstring settings differ from the reference table: "
                                      + repr(sorted(set(raw) ^ names)))
        env = {"numpy": np, "sys": sys, "n": n}
        _DEFAULTS[n] = {k: eval(v, env) for k, v in raw.items()}  # noqa: S307 - docstring of the SUT
    return _DEFAULTS[n]


# ---- running the helpers -----------------------------------------------------------------------
def complete(cfg, n):
    """Returns ('ok', completed dict, warnings) or ('ValueError', msg) or ('other', exc)."""
    opts = {k: v for k, v in cfg.items() if k in OPTS or k.startswith("unknown_o")}
    cons = {k: v for k, v in cfg.items() if k in CONSTS or k.startswith("unknown_c")}
    try:
        with warnings.catch_warnings(record=True) as w:
            warnings.simplefilter("always")
            o = dict(opts)
            # the size options are validated by minimize itself before the helper is called
            for key in ("history_size", "filter_size"):
                if key in o and o[key] <= 0:
                    raise ValueError("pre-validated by minimize")
            cmain._set_default_options(o, n)
            c = cmain._set_default_constants(**cons)
        done = dict(o)
        done.update(c)
        return "ok", done, [(x.category.__name__, str(x.message)) for x in w]
    except ValueError as e:
        return "ValueError", str(e), []
    except Exception as e:  # noqa
        return "other", type(e).__name__ + ": " + str(e), []


def judge(cfg, n, stats, viol):
    known = {k: v for k, v in cfg.items() if not k.startswith("unknown")}
    want_valid = ref_valid(known, n)
    kind, out, warns = complete(cfg, n)
    stats["configs"] = stats.get("configs", 0) + 1
    case = {"part": "cfg", "cfg": cfg, "n": n}

    def add(key, what):
        viol.setdefault(key, {"key": key, "what": what, "case": case})

    if kind == "other":
        add("unexpected-exception", f"settings {cfg} (n={n}): {out}")
        return
    if not want_valid:
        stats["invalid_configs"] = stats.get("invalid_configs", 0) + 1
        if kind != "ValueError":
            bad = [k for k, v in known.items() if not valid_value(k, v, n)]
            name = bad[0] if bad else "coupling:" + "+".join(
                a + "/" + b for a, b, r in COUPLED if a in known and b in known and not rel_ok(r, known[a], known[b]))
            add(f"accepted-invalid:{name}", f"settings {cfg} (n={n}) are outside the documented domain but accepted")
        return
    if kind == "ValueError":
        add("rejected-valid:" + "+".join(sorted(known)), f"valid settings {cfg} (n={n}) rejected: {out}")
        return
    stats["valid_configs"] = stats.get("valid_configs", 0) + 1
    dflt = defaults(n)
    partners = {}
    for a, b, rel in COUPLED:
        partners[a] = b
        partners[b] = a
    for name in list(OPTS) + list(CONSTS):
        if name not in out:
            add(f"missing:{name}", f"completed settings lack {name} (supplied {cfg})")
            continue
        v = out[name]
        if name in known:
            if not (v == known[name]):
                add(f"supplied-changed:{name}", f"supplied {name}={known[name]!r} became {v!r}")
        else:
            derived = partners.get(name) in known
            d = dflt[name]
            if name == "maxfev":
                d = max(d, out["nb_points"] + 1)
            if not derived and not (v == d):
                add(f"default-wrong:{name}", f"unspecified {name} completed to {v!r}, documented default {d!r} "
                                             f"(supplied {cfg}, n={n})")
        if not valid_value(name, v, n) and name in known:
            pass
        elif not valid_value(name, v, n):
            add(f"completed-out-of-domain:{name}", f"completed {name}={v!r} lies outside its domain (supplied {cfg})")
    for a, b, rel in COUPLED:
        if a in out and b in out and not rel_ok(rel, out[a], out[b]):
            add(f"relation-broken:{a}/{b}", f"completed settings violate {a} {'<' if rel == 'lt' else '<='} {b}: "
                                           f"{out[a]!r} vs {out[b]!r} (supplied {cfg})")
    unknown = [k for k in cfg if k.startswith("unknown")]
    if unknown:
        got = [m for c, m in warns if c == "RuntimeWarning"]
        if len(got) < len(unknown):
            add("unknown-no-warning", f"unknown names {unknown} produced warnings {warns}")


# ---- enumeration -------------------------------------------------------------------------------
def roots(tier, seed):
    names = list(OPTS) + list(CONSTS)
    out = []
    for n in (1, 2, 3):
        out.append({"part": "singles", "n": n})
        out.append({"part": "groups", "n": n})
        out.append({"part": "unknown", "n": n})
    for i, a in enumerate(names):
        out.append({"part": "pairs", "a": a, "n": 2})
    if tier == "thorough":
        for a, b in itertools.combinations(names, 2):
            out.append({"part": "triples", "a": a, "b": b, "n": 2})
    for n in (1, 2, 3):
        for name in names:
            out.append({"part": "minimize", "name": name, "n": n})
    return alpha.permute(out, seed)


def coupled_partner(name):
    for a, b, _ in COUPLED:
        if a == name:
            return b
        if b == name:
            return a
    return None


EXITS = ["none", "target_at_x0", "maxfev1", "allfixed", "inconsistent", "callback_stop"]


def minimize_level(name, n, stats, viol):
    """Invalid values must make minimize raise ValueError, whatever early exit is possible."""
    from scipy.optimize import Bounds
    jobs = [(v, ex, valid_value(name, v, n)) for v in lattice(name, n) for ex in EXITS]
    if n >= 2:
        # one variable fixed by equal bounds: the run has n - 1 variables, and a number of interpolation points is
        # admissible for it if and only if it is admissible for n - 1 variables (more points than a quadratic in
        # n - 1 variables has coefficients cannot be run with)
        vals = lattice(name, n)
        if name == "nb_points":
            vals = sorted(set(vals) | set(lattice(name, n - 1)))
        jobs += [(v, "onefixed", valid_value(name, v, n - 1 if name == "nb_points" else n)) for v in vals]
    for v, ex, ok in jobs:
        if True:
            if name == "nb_points" and ex in ("allfixed",) and v > 0:
                continue  # which n counts is not stated; a non-positive size is invalid whatever n is
            opts = {}
            consts = {}
            (opts if name in OPTS else consts)[name] = v
            kw = dict(fun=lambda x: float(np.sum(np.asarray(x) ** 2)), x0=np.full(n, 0.5))
            if ex == "target_at_x0" and name != "target":
                opts["target"] = 1e9
            elif ex == "maxfev1" and name != "maxfev":
                opts["maxfev"] = 1
            elif ex == "allfixed":
                kw["bounds"] = Bounds(np.full(n, 0.5), np.full(n, 0.5))
            elif ex == "onefixed":
                kw["bounds"] = Bounds(np.array([0.5] + [-2.0] * (n - 1)), np.array([0.5] + [3.0] * (n - 1)))
            elif ex == "inconsistent":
                kw["bounds"] = Bounds(np.full(n, 1.0), np.full(n, -1.0))
            elif ex == "callback_stop":
                def cb(xk):
                    raise StopIteration
                kw["callback"] = cb
            if ok:
                opts.setdefault("maxfev", 3)
            try:
                with warnings.catch_warnings():
                    warnings.simplefilter("ignore")
                    with np.errstate(all="ignore"), common.watchdog(60):
                        import io
                        from contextlib import redirect_stdout
                        with redirect_stdout(io.StringIO()):
                            cobyqa.minimize(options=opts, **kw, **consts)
                outcome = "returned"
            except ValueError:
                outcome = "ValueError"
            except common.Timeout:
                outcome = "Timeout"
            except Exception as e:  # noqa
                outcome = type(e).__name__
            stats["minimize_calls"] = stats.get("minimize_calls", 0) + 1
            case = {"part": "minimize1", "name": name, "value": v, "exit": ex, "n": n}
            if not ok and outcome != "ValueError":
                viol.setdefault(f"minimize-accepts-invalid:{name}:{ex}", {
                    "key": f"minimize-accepts-invalid:{name}:{ex}", "case": case,
                    "what": f"minimize with {name}={v!r} (n={n}, early exit '{ex}') {outcome} instead of raising ValueError"})
            if ok and outcome != "returned":
                viol.setdefault(f"minimize-rejects-valid:{name}", {
                    "key": f"minimize-rejects-valid:{name}", "case": case,
                    "what": f"minimize with valid {name}={v!r} (n={n}, exit '{ex}') ended with {outcome}"})


def unknown_level(n, stats, viol):
    f = lambda x: float(np.sum((np.asarray(x) - 0.25) ** 2))  # noqa: E731
    base = cobyqa.minimize(f, np.zeros(n), options={"maxfev": 30})
    for where, kw in (("option", {"options": {"maxfev": 30, "unknown_option": 3}}),
                      ("constant", {"options": {"maxfev": 30}, "unknown_constant": 2.0})):
        case = {"part": "unknown", "n": n}
        try:
            with warnings.catch_warnings(record=True) as w:
                warnings.simplefilter("always")
                res = cobyqa.minimize(f, np.zeros(n), **kw)
        except Exception as e:  # noqa
            viol.setdefault(f"unknown-{where}-raises", {
                "key": f"unknown-{where}-raises", "case": case,
                "what": f"an unknown {where} name made minimize raise {type(e).__name__}: {str(e)[:80]}"})
            continue
        stats["unknown_runs"] = stats.get("unknown_runs", 0) + 1
        rw = [x for x in w if issubclass(x.category, RuntimeWarning)]
        if not rw:
            viol.setdefault(f"unknown-{where}-no-warning", {"key": f"unknown-{where}-no-warning", "case": case,
                                                           "what": f"unknown {where} name produced no RuntimeWarning"})
        if not (np.array_equal(res.x, base.x) and res.nfev == base.nfev and res.fun == base.fun
                and res.status == base.status):
            viol.setdefault(f"unknown-{where}-alters-run", {"key": f"unknown-{where}-alters-run", "case": case,
                                                           "what": f"an unknown {where} name changed the run"})
    # unknown constant names that happen to be parameter names of internal functions (the constants are forwarded
    # as keyword arguments): a warning, the same run - with and without constraints (different solvers are reached)
    from scipy.optimize import LinearConstraint, NonlinearConstraint
    probs = {"unconstrained": {}, "linear": {"constraints": LinearConstraint(np.ones((1, n)), -np.inf, 1.0)},
             "nonlinear": {"constraints": NonlinearConstraint(lambda x: float(np.sum(np.asarray(x) ** 2)), -np.inf, 4.0)}}
    for pname, pk in probs.items():
        with warnings.catch_warnings():
            warnings.simplefilter("ignore")
            ref = cobyqa.minimize(f, np.zeros(n), options={"maxfev": 25}, **pk)
        for name in ("delta", "xl", "xu", "grad", "hess_prod", "debug", "aub", "bub", "aeq", "beq", "const", "xpt",
                     "step", "x", "pb", "k_new", "penalty"):
            case = {"part": "unknown", "n": n, "name": name, "problem": pname}
            try:
                with warnings.catch_warnings(record=True) as w:
                    warnings.simplefilter("always")
                    res = cobyqa.minimize(f, np.zeros(n), options={"maxfev": 25}, **pk, **{name: 1.0})
                outcome = "returned"
            except Exception as e:  # noqa
                outcome = type(e).__name__ + ": " + str(e)[:80]
            stats["unknown_runs"] = stats.get("unknown_runs", 0) + 1
            if outcome != "returned":
                viol.setdefault("unknown-constant-raises", {
                    "key": "unknown-constant-raises", "case": case,
                    "what": f"the unknown constant name '{name}' ({pname} problem) made minimize end with {outcome}"})
                continue
            if not any(issubclass(x.category, RuntimeWarning) for x in w):
                viol.setdefault("unknown-constant-no-warning", {"key": "unknown-constant-no-warning", "case": case,
                                                                "what": f"unknown constant name '{name}': no RuntimeWarning"})
            if not (np.array_equal(res.x, ref.x) and res.nfev == ref.nfev and res.fun == ref.fun and res.status == ref.status):
                viol.setdefault("unknown-constant-alters-run", {"key": "unknown-constant-alters-run", "case": case,
                                                                "what": f"the unknown constant name '{name}' changed the run"})
    for cfg in ({"unknown_o1": 1}, {"unknown_c1": 1.0}, {"unknown_o1": 1, "maxfev": 7}, {"unknown_c1": 1, "low_ratio": 0.2}):
        judge(cfg, n, stats, viol)


def run_case(root):
    stats = {}
    viol = {}
    part = root["part"]
    n = root.get("n", 2)
    names = list(OPTS) + list(CONSTS)
    if part == "singles":
        for name in names:
            for v in lattice(name, n):
                judge({name: v}, n, stats, viol)
        judge({}, n, stats, viol)
    elif part == "pairs":
        a = root["a"]
        for b in names:
            if b == a:
                continue
            full = coupled_partner(a) == b
            la = lattice(a, n) if full else three(a, n)
            lb = lattice(b, n) if full else three(b, n)
            for va in la:
                for vb in lb:
                    judge({a: va, b: vb}, n, stats, viol)
    elif part == "triples":
        a, b = root["a"], root["b"]
        for c in names:
            if c in (a, b) or not (names.index(c) > names.index(b)):
                continue
            for va in three(a, n):
                for vb in three(b, n):
                    for vc in three(c, n):
                        judge({a: va, b: vb, c: vc}, n, stats, viol)
    elif part == "groups":
        for a, b, rel in COUPLED:
            for va in lattice(a, n):
                for vb in lattice(b, n):
                    judge({a: va, b: vb}, n, stats, viol)
                judge({a: va}, n, stats, viol)
            for vb in lattice(b, n):
                judge({b: vb}, n, stats, viol)
        # the radius group also interacts with nb_points/maxfev defaults
        for npt in lattice("nb_points", n):
            for mf in (1, npt, npt + 1) if isinstance(npt, int) and npt > 0 else (1,):
                judge({"nb_points": npt, "maxfev": mf}, n, stats, viol)
    elif part == "unknown":
        unknown_level(n, stats, viol)
    elif part == "minimize":
        minimize_level(root["name"], n, stats, viol)
    elif part == "cfg":
        judge(root["cfg"], n, stats, viol)
    elif part == "minimize1":
        minimize_level(root["name"], n, stats, viol)
    return {"viol": list(viol.values()), "stats": stats}


def coverage(agg, tier, roots_):
    s = agg.stats
    herr = [f"non-vacuity counter {k} is zero" for k in
            ("configs", "invalid_configs", "valid_configs", "minimize_calls", "unknown_runs") if not s.get(k)]
    cov = {"evaluations": int(s.get("configs", 0) + s.get("minimize_calls", 0) + s.get("unknown_runs", 0)),
           "distinct_nontrivial": int(s.get("invalid_configs", 0)), "rule": RULE, "exhaustive": True,
           "roots": len(roots_), "non_vacuity": {k: int(v) for k, v in sorted(s.items())},
           "settings": len(OPTS) + len(CONSTS),
           "samples": roots_[:3] + [{"part": "cfg", "cfg": {"radius_init": 1.0, "radius_final": 1e6}, "n": 2,
                                     "note": "one of the pair configurations enumerated by the 'groups' root"}]}
    return cov, herr
