"""C14 - determinant ratios used to choose and rate interpolation points are correct."""
from fractions import Fraction as Fr

import numpy as np

from .. import common, e2, e2models, refqp
from . import c12

ID = "C14"
LEVEL = "model_checking"
EPS = e2models.EPS
ASSUMPTIONS = [
    "reference: det(W_new)/det(W_old) from the exact rational inverse of the current KKT matrix through the "
    "rank-two determinant identity, cross-checked on two candidates per state against two directly computed exact "
    "determinants (harness self-check)",
    "tolerance 1e3*eps*kappa*(max|column k of W^-1|*(|y|^4/2 + sum|w_i (W^-1 w)_i|) + max|W^-1 w|^2 + |sigma|) with the exact terms and the harness-built kappa of "
    "the scaled KKT matrix; states on whose own set the solver truncates eigenvalues are skipped (states that are "
    "well-poised again after an ill-conditioned predecessor are judged)",
    "same state space and de-duplication as C12; candidates are the lattice points and the lattice scaled by the size "
    "of the current set, restricted to 4x that size from the base ('within a few radii'), all indices",
]


_JUDGED = [0]  # number of states the oracle judged in the current replay (non-vacuity of the repaired histories)


def _cls(err, kappa, mag, sig):
    """Class of a wrong ratio: on a very ill-conditioned (but poised, not truncated) set an error within
    1e3*eps*kappa^2 times the term magnitudes belongs to the known finding D31 (the formula loses kappa^2); any
    other error, and any error on a set with kappa < 1e6, keeps the plain key and fails the check."""
    if kappa >= 1e6 and abs(err) <= 1e3 * EPS * kappa * kappa * (mag + abs(sig)):
        return ":conditioning-squared"
    return ""


def exact_inverse(W):
    m = len(W)
    ident = [[Fr(1) if i == j else Fr(0) for i in range(m)] for j in range(m)]
    cols = e2models.solve_multi(W, ident)
    if cols is None:
        return None
    return [[cols[j][i] for j in range(m)] for i in range(m)]


def exact_sigmas(ref, Winv, y_abs):
    """All ratios det(W with point k replaced by y)/det(W), k = 0..npt-1 (exact)."""
    n = ref.n
    npt = len(ref.Y)
    y = [Fr(float(a)) - b for a, b in zip(y_abs, ref.xb)]
    w = [(sum(a * b for a, b in zip(yk, y)) ** 2) / 2 for yk in ref.Y] + [Fr(1)] + list(y)
    m = len(w)
    Hw = [sum(Winv[i][j] * w[j] for j in range(m)) for i in range(m)]
    yy = sum(v * v for v in y)
    beta = yy * yy / 2 - sum(a * b for a, b in zip(w, Hw))
    beta_terms = yy * yy / 2 + sum(abs(a * b) for a, b in zip(w, Hw))  # magnitudes of what is subtracted
    hwmax = max(abs(v) for v in Hw)
    out = []
    for k in range(npt):
        alpha = Winv[k][k]
        tau = Hw[k]
        colmax = max(abs(Winv[i][k]) for i in range(m))  # alpha is one entry of a computed column of W^-1
        out.append((alpha * beta + tau * tau, colmax * beta_terms + hwmax * hwmax))
    return out


def oracle(st, models, info):
    viol = []
    # the ratios are a function of the current interpolation set only: what matters is whether the solver truncates
    # eigenvalues on *this* set, not whether an earlier set of the history was ill-conditioned
    if e2models.truncates(models.interpolation.xpt):
        return viol
    case = e2models.case_of(st)
    ref = st["ref"]
    n, npt = st["n"], st["npt"]
    W = e2models.kkt(ref.Y, n)
    Winv = exact_inverse(W)
    if Winv is None:
        return viol
    _JUDGED[0] += 1
    kappa = e2models.kappa_of(models.interpolation.xpt)
    # candidates "within a few radii": lattice points and scaled lattice points no further than 4x the size of
    # the current set from the base
    size = max(float(np.max(np.linalg.norm(models.interpolation.xpt, axis=0))), 1e-300)
    xb = np.array([float(v) for v in ref.xb])
    cands = []
    for y in e2models.lattice(n, "full"):
        for cand in (tuple(y), tuple(float(xb[i] + size * y[i]) for i in range(n))):
            if float(np.linalg.norm(np.array(cand) - xb)) <= 4.0 * size and cand not in cands:
                cands.append(cand)
    checked = 0
    worst = 0.0
    selfcheck = 0
    detW = None
    for ci, y in enumerate(cands):
        ex = exact_sigmas(ref, Winv, y)
        with np.errstate(all="ignore"):
            try:
                allk = np.asarray(models.determinants(np.array(y, float)), float)
            except np.linalg.LinAlgError:
                continue
        for k in range(npt):
            sig, mag = float(ex[k][0]), float(ex[k][1])
            tol = 1e3 * EPS * max(kappa, 1.0) * (mag + abs(sig)) + 1e-300
            with np.errstate(all="ignore"):
                one = float(models.determinants(np.array(y, float), k))
            checked += 1
            if not abs(allk[k] - sig) <= tol:
                viol.append({"key": "ratio-wrong:all-indices" + _cls(allk[k] - sig, kappa, mag, sig),
                             "case": dict(case, y=list(y), k=k),
                             "what": f"determinants(y)[{k}]={allk[k]!r} for y={list(y)} but the exact ratio is {sig!r} "
                                     f"(tolerance {tol:.3g}, kappa {kappa:.3g})"})
                return viol
            if not abs(one - sig) <= tol:
                viol.append({"key": "ratio-wrong:one-index" + _cls(one - sig, kappa, mag, sig),
                             "case": dict(case, y=list(y), k=k),
                             "what": f"determinants(y, {k})={one!r} for y={list(y)} but the exact ratio is {sig!r} "
                                     f"(tolerance {tol:.3g})"})
                return viol
            if sig != 0:
                worst = max(worst, abs(allk[k] - sig) / (mag + abs(sig)))
        # harness self-check of the reference on two candidates per state: direct exact determinants
        if ci in (1, len(cands) // 2):
            if detW is None:
                detW = refqp.det(W)
            k = ci % npt
            Y2 = [list(v) for v in ref.Y]
            Y2[k] = [Fr(float(a)) - b for a, b in zip(y, ref.xb)]
            direct = refqp.det(e2models.kkt(Y2, n)) / detW
            selfcheck += 1
            if direct != ex[k][0]:
                viol.append({"key": "HARNESS:reference-ratio-inconsistent", "case": case,
                             "what": f"reference ratio {ex[k][0]} differs from the direct determinant ratio {direct}"})
                return viol
    # isolation: another live Models object of the same shape (different scale) builds its own system in between;
    # the ratios of this object must not change by a single bit
    if cands:
        y = np.array(cands[len(cands) // 2], float)
        with np.errstate(all="ignore"):
            before = np.asarray(models.determinants(y), float)
            decoy = _decoy(n, npt)
            decoy.determinants(decoy.interpolation.point(0) + 0.03125)
            after = np.asarray(models.determinants(y), float)
        if not np.array_equal(before, after, equal_nan=True):
            viol.append({"key": "ratio-depends-on-other-instance", "case": dict(case, y=y.tolist()),
                         "what": "determinants(y) changed after another Models object of the same shape built its "
                                 f"own interpolation system: {before.tolist()} -> {after.tolist()}"})
            return viol
    st["flags"] = list(st.get("flags", [])) + ["ratios_checked"] * 0
    st["n_checked"] = checked
    st["worst"] = worst
    st["selfcheck"] = selfcheck
    return viol


oracle.keeps_object = True


_DECOYS = {}


def _decoy(n, npt):
    if (n, npt) not in _DECOYS:
        m, _ = e2models.make_models(n, npt)
        # shrink the decoy's set so that its scaling differs from every explored set
        for k in range(1, npt):
            x = m.interpolation.point(k) * 0.125
            m.update_interpolation(k, x, float(e2models.f_obj(x)), np.array([e2models.f_obj(x)]),
                                   np.array([e2models.f_eq(x)]))
        _DECOYS[(n, npt)] = m
    return _DECOYS[(n, npt)]


class _Ref:
    """The interpolation set of a real run as exact rationals (what exact_sigmas needs)."""

    def __init__(self, xpt, x_base):
        self.n = xpt.shape[0]
        self.Y = [[Fr(float(v)) for v in xpt[:, k]] for k in range(xpt.shape[1])]
        self.xb = [Fr(float(v)) for v in x_base]


def e1_roots(tier):
    """Real runs: every call of Models.determinants made by the solver itself (geometry steps, choice of the point
    to remove) is compared with the exact ratio; the first calls of each run, n <= 2 (3 in thorough)."""
    from .. import cover
    out = []
    for c in cover.roots_for(tier, monitors=["dets"]):
        if tier == "quick" and c["tag"]["part"] != "cross-feature":
            continue
        if c["n"] > (2 if tier == "quick" else 3):
            continue
        c["explore"] = 0
        c["dets_cap"] = 8 if c["n"] <= 2 else 4
        out.append(c)
    return out


def repaired_histories():
    """Histories that pass through a set on which the solver truncates eigenvalues (one point collapsed onto another
    up to 2^-40) and come back to a well-poised set: the ratios of the final set must not remember the detour."""
    out = []
    for n, npt in ((2, 3), (2, 5), (2, 6), (1, 3)):
        client = e2models.ModelsClient([(n, npt)], oracle, {1: 99, 2: 99, 3: 99})
        (key, st), = client.initial()
        import pickle
        m = pickle.loads(st["real"])
        pts = [m.interpolation.point(k).copy() for k in range(npt)]
        for k in range(npt):
            for j in range(npt):
                if j == k:
                    continue
                for eps_ in (2.0 ** -40, 2.0 ** -48):
                    bad = pts[j].copy()
                    bad[0] += eps_
                    xpt = np.array([p - m.interpolation.x_base for p in pts]).T.copy()
                    xpt[:, k] = bad - m.interpolation.x_base
                    if not e2models.truncates(xpt):
                        continue
                    goods = [pts[k], pts[k] * 0.5 + 0.25]
                    for good in goods:
                        out.append({"engine": "E2-models", "n": n, "npt": npt, "part": "repaired",
                                    "hist": [["upd", k, [float(v) for v in bad]], ["upd", k, [float(v) for v in good]]]})
    return out


def e1_oracle(rec, table=None):
    viol = []
    for i, d in enumerate(rec.notes.get("dets", [])):
        xpt, xb = d["xpt"], d["x_base"]
        n, npt = xpt.shape
        if not (np.all(np.isfinite(xpt)) and np.all(np.isfinite(d["x_new"])) and np.all(np.isfinite(d["out"]))):
            continue
        ref = _Ref(xpt, xb)
        Winv = exact_inverse(e2models.kkt(ref.Y, n))
        if Winv is None:
            continue  # the set is exactly singular: no ratio is defined
        kappa = e2models.kappa_of(xpt)
        if e2models.truncates(xpt):
            continue  # the solver's inverse is a truncated pseudo-inverse there (same rule as in the component search)
        ex = exact_sigmas(ref, Winv, [float(v) for v in d["x_new"]])
        ks = range(npt) if d["k"] is None else [d["k"]]
        got = np.atleast_1d(d["out"])
        for j, k in enumerate(ks):
            sig, mag = float(ex[k][0]), float(ex[k][1])
            tol = 1e3 * EPS * max(kappa, 1.0) * (mag + abs(sig)) + 1e-300
            val = float(got[k] if d["k"] is None else got[0])
            if not abs(val - sig) <= tol:
                viol.append({"key": "run:ratio-wrong" + _cls(val - sig, kappa, mag, sig),
                             "what": f"real run: determinants call #{i + 1} (k={d['k']}) returned {val!r} for index {k} "
                                     f"but the exact ratio is {sig!r} (tolerance {tol:.3g}, kappa {kappa:.3g})"})
                return viol
    return viol


def _e1_stats(rec, table, stats):
    ds = rec.notes.get("dets", [])
    stats["real_run_ratio_calls"] = stats.get("real_run_ratio_calls", 0) + len(ds)
    stats["real_run_ratio_calls_seen"] = stats.get("real_run_ratio_calls_seen", 0) + rec.notes.get("dets_total", 0)


def run_case(case):
    if case.get("engine") != "E2-models" and "hist" not in case:
        from .. import e1prop
        return e1prop.run_case_generic(case, e1_oracle, extra_stats=_e1_stats)
    e2models.EXTRA_COORDS[:] = [2.0 ** -15]
    if case.get("part") == "repaired":
        _JUDGED[0] = 0
    v = e2models.replay_history(case["n"], case["npt"], case["hist"], oracle)
    for x in v:
        x["case"] = case
    stats = {}
    if case.get("part") == "repaired":
        # the oracle ran on the final (well-poised) set if it got past the truncation test there
        stats["repaired_histories"] = 1
        stats["repaired_judged"] = 1 if _JUDGED[0] >= 2 or (_JUDGED[0] >= 1 and not v) else 0
    return {"viol": v, "stats": stats, "digests": [common.sha(case)]}


class CountingClient(e2models.ModelsClient):
    """Adds per-state counters to the flags so that the BFS can aggregate them."""

    def expand(self, st):
        out = super().expand(st)
        for op, key, new, viol in out:
            if new is not None:
                new["flags"] = list(new.get("flags", [])) + (["has_ratios"] if new.get("n_checked") else [])
        return out


def execute(tier, seed, limit=0):
    agg = common.Agg()
    e2models.EXTRA_COORDS[:] = [2.0 ** -15]
    if tier == "quick":
        depth_full, depth_thin, configs, cap = {1: 3, 2: 1}, 0, c12.CONFIGS_Q, 240
    else:
        depth_full, depth_thin = {1: 4, 2: 2, 3: 1}, 0
        configs = c12.CONFIGS_Q + [(3, 4), (3, 7), (3, 10)]
        cap = 3000
    client = CountingClient(configs, oracle, depth_full, depth_thin)
    init_viol = []
    n_init = 0
    for key, st in client.initial():
        init_viol.extend(st.get("init_viol", []))
        n_init += st.get("n_checked", 0)
    res = e2.bfs(client, max_depth=max(depth_full.values()) + depth_thin, conform_every=50, time_cap=cap,
                 conform_depth=1)
    herr = []
    for v in init_viol + res["viol"]:
        if v["key"].startswith("HARNESS:"):
            herr.append(v["what"])
        else:
            agg.viol.append(v)
    for st, err in res["errors"]:
        agg.errors.append((None, err))
    nstates = res["flags"].get("has_ratios", 0)
    if nstates < 50:
        herr.append("fewer than 50 states had their determinant ratios checked")
    # real runs
    from .. import alpha
    rts = alpha.permute(e1_roots(tier), seed)
    if limit:
        rts = rts[:limit]
    rep = repaired_histories()
    if len(rep) < 20:
        herr.append("fewer than 20 histories through a truncating set and back")
    for out in common.run_roots(__import__("mc.props.c14", fromlist=["x"]), rts + rep):
        agg.add(out)
    if not agg.stats.get("real_run_ratio_calls"):
        herr.append("no call of Models.determinants observed in real runs")
    if agg.stats.get("repaired_judged", 0) < 20:
        herr.append("fewer than 20 repaired histories were judged on their final set")
    per_state = {n: len(e2models.lattice(n, "full")) for n in (1, 2, 3)}
    cov = {
        "states": int(res["states"]), "transitions": int(res["transitions"]),
        "traces_validated_against_impl": int(res["conformed"]),
        "samples": [{"n": st["n"], "nb_points": st["npt"], "history": st["hist"],
                     "ratios_checked": st.get("n_checked")} for st in res["samples"][:4]]
        or [{"n": 1, "nb_points": 2, "history": []}],
        "exhaustive": False, "depth_completed": res["depth_completed"], "states_per_depth": res["per_depth"],
        "cap_hit": res["capped"], "configurations": configs, "depth_full": depth_full,
        "states_with_ratios_checked": int(nstates),
        "candidates_per_state": per_state,
        "explanation": "every new state of the breadth-first search is a poised interpolation set; for each, "
                       "Models.determinants (all indices and one index) is compared with the exact ratio for every "
                       "lattice candidate and every index",
        "real_runs": {"runs": int(agg.stats.get("runs", 0)),
                      "determinant_calls_checked": int(agg.stats.get("real_run_ratio_calls", 0)),
                      "determinant_calls_seen": int(agg.stats.get("real_run_ratio_calls_seen", 0)),
                      "rule": "cross-feature cases (mc/cover.py) with n <= 2 (3 in thorough): the first 8 (4) calls "
                              "the solver itself makes per run, each compared with the exact rational ratio of the "
                              "run's own interpolation set"},
        "evaluations": int(res["transitions"] + agg.stats.get("runs", 0)), "distinct_nontrivial": int(nstates),
    }
    return agg, cov, herr, rts
