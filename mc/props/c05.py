"""C05 - evaluation and iteration budgets are respected and counted truthfully."""
from .. import alpha, ctrl, e1prop, oracles

ID = "C05"
LEVEL = "exploration"
ASSUMPTIONS = [
    "evaluations are counted three ways: objective calls, callback invocations (user space) and "
    "Problem.__call__ invocations (monitor)",
    "numeric data restricted to the dyadic alphabet; n <= 2 quick, <= 3 thorough",
]
RULE = ("complete cross product {objective, fun=None} x {no, linear, nonlinear constraints} x every maxfev from 1 to "
        "nb_points+4 and default x maxiter in {1,2,3,default} x every admissible nb_points x "
        "store_history with history_size in {1,2,nfev-1,nfev,nfev+1} (nfev taken from the run without history cap); "
        "plus engine E3: every control path of the real main loop against a scripted back end within 2 (thorough 3) "
        "deviations of three nominal scripts and every maxfev from 1 to nb_points+6. "
        "Non-trivial = run ended by a budget or with a trimmed history; distinct = distinct bit-exact observation.")


def roots(tier, seed):
    out = []
    ns = [1, 2] if tier == "quick" else [1, 2, 3]
    for n in ns:
        npts = list(range(n + 1, (n + 1) * (n + 2) // 2 + 1))
        for obj in ["quad", "none"]:
            for cons in ["none", "lin_le", "ball_le", "lin_eq+nl_eq", "lin+cubic"]:
                if obj == "none" and cons == "none":
                    continue
                for pats in [("free",) * n, ("wide",) * n]:
                    for npt in npts:
                        fevs = list(range(1, npt + 5)) + [None]
                        if tier == "thorough":
                            fevs += [npt + 9, npt + 17]
                        for maxfev in fevs:
                            for maxiter in [1, 2, 3, None]:
                                if maxfev is None and maxiter is None and pats[0] == "wide":
                                    continue
                                opts = {"nb_points": npt}
                                if maxfev is not None:
                                    opts["maxfev"] = maxfev
                                if maxiter is not None:
                                    opts["maxiter"] = maxiter
                                if maxfev is None and maxiter is None:
                                    opts["maxfev"] = 50 * n if tier == "quick" else 200 * n
                                cb = {"sig": "xk", "behav": "passive"}
                                case = alpha.base_case(n, pats, "in", obj, cons, options=opts, callback=cb)
                                case["explore"] = 0
                                out.append(case)
                    # history trimming (sizes relative to the number of evaluations of the run)
                    for maxfev in [2 * n + 3, 12 * n]:
                        case = alpha.base_case(n, pats, "in", obj, cons,
                                               options={"maxfev": maxfev, "store_history": True},
                                               callback={"sig": "xk", "behav": "passive"})
                        case["history_probe"] = True
                        case["explore"] = 0
                        out.append(case)
                    # history is independent of the other size option (filter_size)
                    for fs in (1, 3):
                        for hs in (None, 5):
                            o = {"maxfev": 10 * n + 4, "store_history": True, "filter_size": fs}
                            if hs:
                                o["history_size"] = hs
                            case = alpha.base_case(n, pats, "in", obj, cons, options=o,
                                                   callback={"sig": "xk", "behav": "passive"})
                            case["explore"] = 0
                            out.append(case)
                    # history when the run is ended by the callback at call k
                    for k in (1, 2, 2 * n + 2, 2 * n + 5):
                        for hs in (None, 2):
                            o = {"maxfev": 12 * n, "store_history": True}
                            if hs:
                                o["history_size"] = hs
                            case = alpha.base_case(n, pats, "in", obj, cons, options=o,
                                                   callback={"sig": "xk", "behav": "stop", "k": k})
                            case["explore"] = 0
                            out.append(case)
    out += ctrl.roots(tier, deep=False)
    from .. import cover
    out += cover.roots_for(tier)
    return alpha.permute(out, seed)


def _post_history(base, recs, stats):
    """Second stage of a history root: history_size relative to the observed nfev."""
    from .. import e1
    viol = []
    if not base.get("history_probe") or not recs or recs[0].res is None:
        return viol
    nfev = int(recs[0].res.nfev)
    for hs in sorted({1, 2, max(1, nfev - 1), nfev, nfev + 1}):
        c = {k: v for k, v in base.items() if k != "history_probe"}
        c["options"] = dict(base["options"], history_size=hs)
        rec = e1.run(c)
        stats["runs"] += 1
        stats["history_runs"] = stats.get("history_runs", 0) + 1
        if rec.res is not None and hs < int(rec.res.nfev):
            stats["history_trimmed"] = stats.get("history_trimmed", 0) + 1
        for v in oracles.c05(rec):
            v["case"] = rec.case
            viol.append(v)
    return viol


def _stats(rec, table, stats):
    if rec.res is not None:
        opts = rec.case.get("options", {})
        if "maxfev" in opts and int(rec.res.nfev) == int(opts["maxfev"]):
            stats["runs_at_maxfev"] = stats.get("runs_at_maxfev", 0) + 1
        if "maxiter" in opts and int(rec.res.nit) == int(opts["maxiter"]):
            stats["runs_at_maxiter"] = stats.get("runs_at_maxiter", 0) + 1
        if rec.case["obj"]["kind"] == "none":
            stats["feasibility_runs"] = stats.get("feasibility_runs", 0) + 1


def run_case(case):
    if case.get("stub"):
        return e1prop.run_case_generic(case, oracles.c05, menu=ctrl.menu, horizon=ctrl.horizon,
                                       extra_stats=ctrl.stats)
    return e1prop.run_case_generic(case, oracles.c05, extra_stats=_stats, post=_post_history)


def coverage(agg, tier, roots_):
    need = ["runs_at_maxfev", "runs_at_maxiter", "feasibility_runs", "history_trimmed", "evals_tr", "ctrl_runs",
            "ctrl_status_5", "ctrl_status_6"]
    cov, herr = e1prop.coverage_generic(agg, tier, roots_, RULE, need=need)
    ok, fails, inter = ctrl.conformance_suite(tier)
    cov["control_skeleton"] = {"executions": int(agg.stats.get("ctrl_runs", 0)),
                               "choice_points": int(agg.stats.get("ctrl_choice_points", 0)),
                               "deviation_bound": 1 if tier == "quick" else 2,
                               "real_traces_replayed_through_skeleton": ok, "taped_interactions": inter}
    herr += [f"conformance replay failed for {t}: {m}" for t, m in fails]
    return cov, herr
