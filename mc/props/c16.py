"""C16 - subproblem solvers never make things worse and achieve the decrease theory needs."""
import math

import numpy as np

from .. import alpha, common, e5sub

ID = "C16"
LEVEL = "exploration"
EPS = e5sub.EPS
ASSUMPTIONS = [
    "objective of each subproblem recomputed by the harness at 0 and at the returned step",
    "rounding allowance 100*eps*n*(|g|*delta + |H|*delta^2 + |const|) (resp. the analogous magnitude of the "
    "constraint residuals for the normal step)",
    "Cauchy decrease: the solver treats directions with |d|^2 <= 10*eps*n*max(1,|g|) as non-descent (its documented "
    "stopping test); the corresponding decrease delta*sqrt(10*eps*n*max(1,|g|)) is allowed for, plus 1e-6 relative",
    "strict increase of the Cauchy geometry step is demanded only for constant term 0 (the way the framework calls it)",
    "Cauchy decrease is demanded in two forms: (1) the full decrease of the steepest-descent step truncated at the "
    "first bound and at the trust-region boundary (first segment of the solver's own path, which later segments "
    "cannot lose); (2) for positive semidefinite Hessians, at least half of the decrease at the generalized Cauchy "
    "point of the projected-gradient path (a correct active-set TCG need not reach the full GCP decrease - the "
    "unchanged tree reaches >= 99.4% on the lattice - and with negative curvature the solver's first-order stopping "
    "heuristic applies, so (2) is not demanded there)",
]
RULE = ("same lattice as C15 (mc/e5sub.py); per instance the harness evaluates the subproblem's objective at the origin "
        "and at the returned step, and for the bound-constrained tangential solver the decrease of the projected-gradient "
        "Cauchy step. Non-trivial = instance with a non-zero step; distinct = distinct (instance, step) pair.")
CHUNK = 2


def mag(ctx, const=0.0):
    n = ctx["g"].size
    d = ctx["delta"]
    hn = float(np.max(np.abs(ctx["H"]))) * n if "H" in ctx else 0.0
    return 100.0 * EPS * n * (float(np.linalg.norm(ctx["g"])) * d + hn * d * d + abs(const))


def check(inst, s, err, ctx, stats):
    fn = inst["fn"]
    if err is not None or s is None or not np.all(np.isfinite(s)):
        return []  # C15's business
    out = []
    if fn in ("tangential", "constrained"):
        q = e5sub.q_val(ctx, s)
        tol = mag(ctx)
        if q > tol:
            out.append(("increase:" + fn, f"{fn} step increases the quadratic model: q(s)={q:.6g} > q(0)=0"))
        if fn == "tangential":
            dec, nd = e5sub.ref_cauchy_decrease(ctx)
            n = ctx["g"].size
            thr = ctx["delta"] * math.sqrt(10.0 * EPS * n * max(1.0, float(np.linalg.norm(ctx["g"]))))
            allow = 1e-6 * dec + tol + thr
            if dec > 0:
                stats["cauchy_positive"] = stats.get("cauchy_positive", 0) + 1
            # a fraction of the generalized Cauchy decrease (projected-gradient *path*), convex case only
            Hm = ctx["H"]
            hn = float(np.max(np.abs(Hm)))
            if hn == 0.0 or float(np.min(np.linalg.eigvalsh(Hm))) >= -1e-12 * hn:
                gcp = e5sub.ref_gcp_decrease(ctx)
                if gcp > 0:
                    stats["gcp_checked"] = stats.get("gcp_checked", 0) + 1
                    if -q < 0.5 * gcp - allow and not e5sub.tiny_along_path(ctx):
                        out.append(("gcp-fraction:" + fn,
                                    f"tangential step decreases the model by {-q:.6g}, less than half of the "
                                    f"decrease {gcp:.6g} at the generalized Cauchy point"))
            if -q < dec - allow:
                # sub-key: the solver's non-descent test is absolute, |d|^2 <= 10*eps*n*max(1,|g|)
                tiny = nd * nd <= 10.0 * EPS * n * max(1.0, float(np.linalg.norm(ctx["g"])))
                out.append(("cauchy-decrease:" + fn + (":gradient-below-absolute-threshold" if tiny else ""),
                            f"tangential step decreases the model by {-q:.6g} < Cauchy decrease {dec:.6g}"))
    elif fn == "normal":
        p0 = e5sub.phi(ctx, np.zeros_like(s))
        p1 = e5sub.phi(ctx, s)
        n = s.size
        d = ctx["delta"]
        m = 0.0
        for A, b in ((ctx["aub"], ctx["bub"]), (ctx["aeq"], ctx["beq"])):
            if A.size:
                m = max(m, float(np.max(np.abs(b), initial=0.0)) + float(np.max(np.abs(A))) * n * d)
        tol = 100.0 * EPS * (n + 2) * m * m
        if p0 > 0:
            stats["normal_violated_at_origin"] = stats.get("normal_violated_at_origin", 0) + 1
        if p1 < p0:
            stats["normal_improved"] = stats.get("normal_improved", 0) + 1
        if p1 > p0 + tol:
            out.append(("increase:" + fn, f"normal step increases the linearised violation: {p1:.6g} > {p0:.6g}"))
    else:
        const = float(inst["const"])
        q0 = abs(const)
        q1 = abs(e5sub.q_val(ctx, s, const))
        tol = mag(ctx, const)
        if q1 < q0 - tol:
            out.append(("decrease:" + fn, f"{fn} step decreases |q|: {q1:.6g} < {q0:.6g}"))
        if fn == "cauchy" and const == 0.0:
            g, xl, xu = ctx["g"], ctx["xl"], ctx["xu"]
            can = bool(np.any((g != 0) & ((xl < 0) | (xu > 0))))
            if can:
                stats["cauchy_geo_improvable"] = stats.get("cauchy_geo_improvable", 0) + 1
                if not (q1 > 0.0):
                    out.append(("no-strict-increase:cauchy",
                                f"cauchy_geometry returned {s.tolist()} with |q(s)|={q1} although a feasible "
                                f"first-order improving direction exists (g={g.tolist()}, xl={xl.tolist()}, "
                                f"xu={xu.tolist()}, delta={ctx['delta']})"))
    return out


def run_case(root):
    insts = [root["inst"]] if "inst" in root else e5sub.instances(root)
    stats = {"calls": 0, "nonzero_steps": 0}
    viol = {}
    nz = 0
    for inst in insts:
        with common.watchdog(30):
            s, err, ctx = e5sub.solve(inst)
        stats["calls"] += 1
        k = "calls_" + inst["fn"]
        stats[k] = stats.get(k, 0) + 1
        if s is not None and np.any(s != 0):
            stats["nonzero_steps"] += 1
            nz += 1
        for key, what in check(inst, s, err, ctx, stats):
            if key not in viol:
                viol[key] = {"key": key, "what": what, "case": {"inst": inst, "fn": inst["fn"]}}
    return {"viol": list(viol.values()), "stats": stats, "extra": {"nz": nz}}


def roots(tier, seed):
    return alpha.permute(e5sub.roots(tier), seed)


def coverage(agg, tier, roots_):
    s = agg.stats
    herr = []
    for k in ["calls_tangential", "calls_constrained", "calls_normal", "calls_cauchy", "calls_spider",
              "nonzero_steps", "cauchy_positive", "gcp_checked", "normal_violated_at_origin", "normal_improved",
              "cauchy_geo_improvable"]:
        if not s.get(k):
            herr.append(f"non-vacuity counter {k} is zero")
    cov = {
        "evaluations": int(s.get("calls", 0)),
        "distinct_nontrivial": int(sum(e["nz"] for e in agg.extra)),
        "rule": RULE,
        "exhaustive": True,
        "roots": len(roots_),
        "non_vacuity": {k: int(v) for k, v in sorted(s.items())},
        "samples": [next(e5sub.instances(r)) for r in roots_[:3]],
    }
    return cov, herr
