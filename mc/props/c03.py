"""C03 - the returned point is the best point evaluated, feasible points first.

(a) component level, engine E2: breadth-first search over evaluation histories fed to a real
    ``Problem`` (its filter), in lock-step with the reference of mc/refs.py;
(b) end to end, engine E1: NaN/inf deviations at every evaluation of real runs.
"""
import math

import numpy as np
from scipy.optimize import NonlinearConstraint

from .. import alpha, common, e1, e1prop, e2, explore, oracles, refs

ID = "C03"
LEVEL = "model_checking"
ASSUMPTIONS = [
    "component level: the filter state of a Problem is its three lists (_fun_filter, _maxcv_filter, _x_filter); "
    "states are injected into one real Problem per worker and every state at depth <= 2 plus every 20th new state "
    "is re-derived by replaying its whole history on a fresh Problem (conformance)",
    "value alphabet F = {NaN,-inf,-1,0,1,+inf} x V = {NaN,0,tol,nextafter(tol),1,2,+inf}, penalties {0,1,1e3}, "
    "filter_size in {unbounded,1,2,3}",
    "conventions: +-inf are defined values; the merit f+p*v is defined only for finite v and non-NaN f; "
    "for a finite filter the documented retention rule (non-dominated, most recent kept, oldest evicted) is the reference",
    "end to end: problems without linear constraints, so that the harness computes violations bit-identically",
]
TOL = 0.5
F_ALPHA = [float("nan"), -math.inf, -1.0, 0.0, 1.0, math.inf]
V_ALPHA = [float("nan"), 0.0, TOL, float(np.nextafter(TOL, 1.0)), 1.0, 2.0, math.inf]
OPS = [(f, v) for f in F_ALPHA for v in V_ALPHA]
PENALTIES = [0.0, 1.0, 1e3]
SIZES = [None, 1, 2, 3]


def fkey(a):
    return "nan" if a != a else float(a).hex()


def pkey(p):
    return (fkey(p[0]), fkey(p[1]))


# ----------------------------------------------------------------------------------------------
# the real component, one per worker process
# ----------------------------------------------------------------------------------------------
class Cell:
    f = 0.0
    v = 0.0
    uniq = 0


_PB = {}


def make_problem(fs):
    import cobyqa.problem as cp

    def fun(x):
        return Cell.f

    def con(x):
        return Cell.v

    obj = cp.ObjectiveFunction(fun, False, False)
    n = 2
    bounds = cp.BoundConstraints(cp.Bounds(np.full(n, -np.inf), np.full(n, np.inf)))
    linear = cp.LinearConstraints([], n, False)
    nonlinear = cp.NonlinearConstraints([NonlinearConstraint(con, -np.inf, 0.0)], False, False)
    import sys
    pb = cp.Problem(obj, np.zeros(n), bounds, linear, nonlinear, None, TOL, False, False, 1,
                    sys.maxsize if fs is None else fs, False)
    return pb


def get_pb(fs):
    if fs not in _PB:
        _PB[fs] = make_problem(fs)
    return _PB[fs]


def feed(pb, idx, f, v):
    Cell.f, Cell.v = f, v
    Cell.uniq += 1
    with np.errstate(all="ignore"):
        pb(np.array([float(idx), float(Cell.uniq)]))


def inject(pb, hist, code):
    pb._fun_filter = [hist[i][0] for i in code]
    pb._maxcv_filter = [hist[i][1] for i in code]
    pb._x_filter = [np.array([float(i), -1.0]) for i in code]


def read_code(pb):
    return [int(x[0]) for x in pb._x_filter]


def front_of(hist):
    full = [(i, p) for i, p in enumerate(hist) if p[0] == p[0] and p[1] == p[1]]
    latest = {}
    for i, p in full:
        latest[p] = i
    items = [(i, p) for p, i in latest.items()]
    out = []
    for i, p in items:
        if not any(q[0] <= p[0] and q[1] <= p[1] and (q[0] < p[0] or q[1] < p[1]) for _, q in items):
            out.append(p)
    return frozenset(pkey(p) for p in out), latest


def make_key(fs, hist, code):
    front, latest = front_of(hist)
    ck = tuple((pkey(hist[i]), latest.get(hist[i]) == i if hist[i][0] == hist[i][0] and hist[i][1] == hist[i][1]
                else True) for i in code)
    if fs is None:
        return (fs, ck, front)
    ref = refs.ref_retained(hist, fs)
    return (fs, ck, tuple(pkey(hist[i]) for i in ref), tuple(code) == tuple(ref))


def judge(fs, hist, code, pb):
    """Oracle after one operation."""
    viol = []
    case = {"engine": "E2-filter", "filter_size": fs, "history": [list(p) for p in hist]}
    # the filter stores exactly the values it was fed
    for i, f, v in zip(code, pb._fun_filter, pb._maxcv_filter):
        if not (e1.feq(f, hist[i][0]) and e1.feq(v, hist[i][1])):
            viol.append({"key": "filter-stores-other-values", "case": case,
                         "what": f"filter entry for evaluation {i} holds ({f},{v}) instead of {hist[i]}"})
            return viol
    if fs is not None:
        ref = refs.ref_retained(hist, fs)
        if list(code) != list(ref):
            if len(code) > fs:
                viol.append({"key": "filter-too-large", "case": case,
                             "what": f"{len(code)} points retained with filter_size={fs}"})
            else:
                viol.append({"key": "retention-differs", "case": case,
                             "what": f"retained evaluations {list(code)} but the documented rule retains {ref}"})
            return viol
        sub = [hist[i] for i in ref]
    for p in PENALTIES:
        try:
            with np.errstate(all="ignore"):
                x, f, v = pb.best_eval(p)
        except Exception as e:  # noqa
            viol.append({"key": f"best-eval-raises:{type(e).__name__}", "case": dict(case, penalty=p),
                         "what": f"after history {hist} (filter_size={fs}) best_eval({p}) raised "
                                 f"{type(e).__name__}: {e}"})
            continue
        idx = int(x[0])
        if idx not in code or not (e1.feq(f, hist[idx][0]) and e1.feq(v, hist[idx][1])):
            viol.append({"key": "best-eval-inconsistent", "case": dict(case, penalty=p),
                         "what": f"best_eval returned x of evaluation {idx} with values ({f},{v})"})
            continue
        if fs is None:
            why = refs.best_acceptable(hist, idx, TOL, p)
        else:
            why = refs.best_acceptable(sub, ref.index(idx), TOL, p)
        if why:
            viol.append({"key": f"not-best:{why}", "case": dict(case, penalty=p),
                         "what": f"after history {hist} (filter_size={fs}, penalty={p}) best_eval returned "
                                 f"evaluation {idx} = {hist[idx]}: {why}"})
    return viol


class FilterClient:
    def initial(self):
        out = []
        for fs in SIZES:
            st = {"fs": fs, "hist": [], "code": []}
            out.append((("init", fs), st))
        return out

    def expand(self, st):
        fs = st["fs"]
        pb = get_pb(fs)
        out = []
        for (f, v) in OPS:
            hist = st["hist"] + [(f, v)]
            inject(pb, st["hist"], st["code"])
            feed(pb, len(st["hist"]), f, v)
            code = read_code(pb)
            viol = judge(fs, hist, code, pb)
            key = make_key(fs, hist, code)
            out.append(((f, v), key, {"fs": fs, "hist": hist, "code": code}, viol))
        return out

    def conform(self, st):
        """Replay the whole history on a fresh Problem: same retained list, same answers."""
        fs = st["fs"]
        fresh = make_problem(fs)
        for i, (f, v) in enumerate(st["hist"]):
            feed(fresh, i, f, v)
        viol = []
        case = {"engine": "E2-filter", "filter_size": fs, "history": [list(p) for p in st["hist"]]}
        if read_code(fresh) != list(st["code"]):
            viol.append({"key": "HARNESS:state-injection-diverges", "case": case,
                         "what": f"replay retains {read_code(fresh)}, injected exploration retained {st['code']}"})
            return viol
        pb = get_pb(fs)
        inject(pb, st["hist"], st["code"])
        for p in PENALTIES:
            with np.errstate(all="ignore"):
                a = fresh.best_eval(p)
                b = pb.best_eval(p)
            if int(a[0][0]) != int(b[0][0]):
                viol.append({"key": "HARNESS:state-injection-diverges", "case": case,
                             "what": "best_eval differs between replayed and injected state"})
        return viol


CLIENT = FilterClient()


def replay_component(case):
    fs = case["filter_size"]
    hist = [tuple(p) for p in case["history"]]
    pb = make_problem(fs)
    viol = []
    for i, (f, v) in enumerate(hist):
        feed(pb, i, f, v)
        if i == len(hist) - 1:
            viol = judge(fs, hist[:i + 1], read_code(pb), pb)
    return viol


# ----------------------------------------------------------------------------------------------
# end-to-end part (E1)
# ----------------------------------------------------------------------------------------------
def roots(tier, seed):
    out = []
    ns = [1, 2] if tier == "quick" else [1, 2, 3]
    for n in ns:
        for pats in [("free",) * n, ("wide",) * n]:
            for cons in ["none", "ball_le", "ball_eq", "cubic_le", "nl_vec"]:
                for obj in ["quad", "lin", "const"]:
                    for fs in [None, 1, 2, 3]:
                        if fs is not None and (obj != "quad" or cons in ("nl_vec",)):
                            continue
                        opts = {"maxfev": (12 * n + 6) if tier == "quick" else 40 * n}
                        if fs is not None:
                            opts["filter_size"] = fs
                        case = alpha.base_case(n, pats, "in", obj, cons, options=opts)
                        case["explore"] = 1 if (tier == "thorough" or (n == 1 and fs in (None, 2))) else 0
                        if tier == "thorough" and n == 1 and fs is None and cons in ("none", "ball_le"):
                            case["explore"] = 2
                            case["options"]["maxfev"] = 12
                        out.append(case)
                # NaN at x0 then a converged run
                c = alpha.base_case(n, pats, "in", "quad", cons, options={})
                c["dev"] = [["obj", 1, "nan"]]
                c["explore"] = 0
                out.append(c)
    from .. import cover
    out += cover.roots_for(tier, linear_ok=False)
    return alpha.permute(out, seed)


def _stats(rec, table, stats):
    if any((r["f"] is not None and r["f"] != r["f"]) or (r["v"] is not None and r["v"] != r["v"]) for r in table):
        stats["runs_with_nan_points"] = stats.get("runs_with_nan_points", 0) + 1


def run_case(case):
    if case.get("engine") == "E2-filter":
        return {"viol": [dict(v) for v in replay_component(case)], "stats": {}, "digests": [common.sha(case)]}
    return e1prop.run_case_generic(case, oracles.c03, extra_stats=_stats)


def execute(tier, seed, limit=0):
    agg = common.Agg()
    # (a) component level
    depth = 64
    res = e2.bfs(CLIENT, max_depth=depth, conform_every=20,
                 max_states=400000 if tier == "quick" else 5000000,
                 time_cap=100 if tier == "quick" else 1500)
    herr = []
    for v in res["viol"]:
        if v["key"].startswith("HARNESS:"):
            herr.append(v["what"])
        else:
            agg.viol.append(v)
    for st, err in res["errors"]:
        agg.errors.append((st, err))
    # (b) end to end
    rts = roots(tier, seed)
    if limit:
        rts = rts[:limit]
    for out in common.run_roots(__import__("mc.props.c03", fromlist=["x"]), rts):
        agg.add(out)
    s = agg.stats
    if not s.get("runs_with_nan_points"):
        herr.append("no end-to-end run stored a NaN point")
    if res["states"] < 100:
        herr.append("component search visited fewer than 100 states")
    samples = [{"filter_size": st["fs"], "history": [[fkey(a), fkey(b)] for a, b in st["hist"]],
                "retained_evaluations": st["code"]} for st in res["samples"][:5]]
    cov = {
        "states": int(res["states"]),
        "transitions": int(res["transitions"]),
        "traces_validated_against_impl": int(res["conformed"]),
        "samples": samples,
        "exhaustive": bool(res["exhaustive"]),
        "depth_completed": res["depth_completed"],
        "states_per_depth": res["per_depth"],
        "cap_hit": res["capped"],
        "operations": len(OPS),
        "filter_sizes": ["unbounded" if x is None else x for x in SIZES],
        "penalties_checked_per_state": PENALTIES,
        "explanation": "component: every (f, v) operation from every reachable canonical filter state, "
                       "reference consulted after every transition; fixed point reached = reachable state space "
                       "exhausted for the value alphabet",
        "end_to_end": {"runs": int(s.get("runs", 0)), "roots": len(rts),
                       "distinct_observations": len(agg.digests),
                       "deviated_runs": int(s.get("deviated_runs", 0)),
                       "runs_with_nan_points": int(s.get("runs_with_nan_points", 0)),
                       "deviation_bound_completed": 2 if tier == "thorough" else 1},
        "evaluations": int(res["transitions"] + s.get("runs", 0)),
        "distinct_nontrivial": int(res["states"]),
        "rule": "component states are distinct canonical (filter contents, reference summary) pairs",
    }
    return agg, cov, herr, rts
