"""C09 - stopping requests take effect at the very evaluation that triggers them."""
from .. import alpha, ctrl, e1, e1prop, oracles

ID = "C09"
LEVEL = "fault_enumeration"
ASSUMPTIONS = [
    "a stopping request is injected as an environment answer (objective <= target, constraints feasible, "
    "callback raising StopIteration) at one evaluation index of an otherwise truthful run",
    "only finite targets are considered (the default target -inf means 'no target')",
    "requests whose feasibility is within rounding of feasibility_tol are skipped as ambiguous (counted)",
    "numeric data restricted to the dyadic alphabet; n <= 2 quick, <= 3 thorough",
]
RULE = ("for every base problem, the truthful run is recorded and then re-run once per (evaluation index k, request) "
        "for every k = 1..nfev: objective answers below the target at k; every constraint answers 'feasible' at k "
        "(feasibility problems); callback raises StopIteration at its k-th call; target and callback together at k. "
        "Non-trivial = triggered run; distinct = distinct bit-exact observation. The matrix request x step kind "
        "(initial / trust-region / second-order correction / geometry) must be fully covered.")


def roots(tier, seed):
    out = []
    ns = [1, 2] if tier == "quick" else [1, 2, 3]
    for n in ns:
        for pats in [("free",) * n, ("wide",) * n] + ([("fixed",) + ("wide",) * (n - 1)] if n > 1 else []):
            for cons in ["none", "lin_le", "ball_le", "ball_eq", "lin_eq+nl_eq", "two_nl", "cubic_le", "cubic_eq", "lin+cubic"]:
                for scale in [False, True]:
                    if scale and (pats[0] == "free" or cons in ("lin_le", "two_nl")):
                        continue
                    for obj in ["quad_far", "none"]:
                        if obj == "none" and cons in ("none", "lin_le"):
                            continue
                        opts = {"scale": scale, "target": -50.0}
                        opts["maxfev"] = (30 if n == 1 else 45) if tier == "quick" else 80 * n
                        if obj == "none":
                            # make the true constraints infeasible so that only the injected answer is feasible
                            cs = alpha.cons_set(cons, n)
                            for c in cs:
                                if c["kind"] == "nl":
                                    for f in c["funs"]:
                                        if f["kind"] == "ball":
                                            f["c"] = [3.0] * n
                                            f["r2"] = 0.25
                                        if f["kind"] == "cubic":
                                            c["ub"] = [-40.0] if c["lb"] != c["ub"] else c["ub"]
                                            c["lb"] = c["lb"] if c["lb"] != [0.5] else [60.0]
                                            c["ub"] = c["ub"] if c["ub"] != [0.5] else [60.0]
                            case = alpha.base_case(n, pats, "in", obj, cs, options=opts,
                                                   callback={"sig": "xk", "behav": "passive"})
                            case["tag"]["cons"] = cons
                        else:
                            case = alpha.base_case(n, pats, "in", obj, cons, options=opts,
                                                   callback={"sig": "xk", "behav": "passive"})
                        case["explore"] = 0
                        out.append(case)
    # targets at or above the barrier value 2^100: a NaN / infinite / huge objective value (replaced by the barrier
    # inside the solver) is not an event "target reached"
    for n in ns:
        for pats in [("free",) * n, ("wide",) * n]:
            for target in [alpha.INF, 2.0 ** 100, 1e40]:
                for cons in ["none", "ball_le"]:
                    for alt in ["huge", "nan", "pinf"]:
                        for k in (0, 1, 2 * n + 1, 2 * n + 2):
                            c = alpha.base_case(n, pats, "in", "quad", cons, options={"target": target, "maxfev": 30})
                            c["dev"] = [["obj", kk, alt] for kk in range(k + 1)]
                            c["tag"]["special"] = "target-at-barrier"
                            c["cover"] = True
                            c["explore"] = 0
                            out.append(c)
    out += ctrl.roots(tier, deep=False)
    from .. import cover
    for c in cover.roots_for(tier):
        c["cover"] = True
        out.append(c)
    return alpha.permute(out, seed)


def _triggers(base, rec0):
    """All single-index trigger runs derived from the truthful run."""
    table = oracles.eval_table(rec0)
    feas_pb = base["obj"]["kind"] == "none"
    for k, r in enumerate(table, start=1):
        kind = r["p"]["kind"]
        cbk = [c for c in r["calls"] if c["fid"] == "cb"]
        objc = [c for c in r["calls"] if c["fid"] == "obj"]
        conc = [c for c in r["calls"] if c["fid"].startswith("con")]
        if cbk:
            yield kind, "cb", [["cb", cbk[0]["k"], "stop"]]
        if feas_pb:
            if conc:
                yield kind, "feas", [[c["fid"], c["k"], ["feasible", 0]] for c in conc]
                if cbk:
                    yield kind, "feas+cb", [[c["fid"], c["k"], ["feasible", 0]] for c in conc] + \
                        [["cb", cbk[0]["k"], "stop"]]
        elif objc:
            dev = [["obj", objc[0]["k"], "target"]]
            # the target only counts at a feasible point: make the constraints feasible there too
            dev_f = dev + [[c["fid"], c["k"], ["feasible", 0]] for c in conc]
            yield kind, "target", dev_f
            yield kind, "target-exact", [["obj", objc[0]["k"], "target_eq"]] + dev_f[1:]
            if cbk:
                yield kind, "target+cb", dev_f + [["cb", cbk[0]["k"], "stop"]]
            if conc:
                yield kind, "target-infeasible", dev  # below target but (truthfully) maybe infeasible


def _post(base, recs, stats):
    viol = []
    rec0 = recs[0]
    if rec0.res is None:
        return viol
    for kind, req, dev in _triggers(base, rec0):
        c = dict(base)
        c["dev"] = dev
        rec = e1.run(c)
        stats["runs"] += 1
        stats["triggered_runs"] = stats.get("triggered_runs", 0) + 1
        key = f"cover_{req}_{kind}"
        stats[key] = stats.get(key, 0) + 1
        if rec.notes.get("unused_dev"):
            stats["trigger_not_reached"] = stats.get("trigger_not_reached", 0) + 1
        for v in oracles.c09(rec):
            v["case"] = rec.case
            viol.append(v)
        if rec.notes.get("c09_ambiguous"):
            stats["ambiguous_skipped"] = stats.get("ambiguous_skipped", 0) + 1
        if rec.res is not None:
            st = "trig_status_%d" % int(rec.res.status)
            stats[st] = stats.get(st, 0) + 1
    return viol


def run_case(case):
    if case.get("cover"):
        return e1prop.run_case_generic({k: v for k, v in case.items() if k != "cover"}, oracles.c09)
    if case.get("stub"):
        return e1prop.run_case_generic(case, oracles.c09, menu=ctrl.menu, horizon=ctrl.horizon,
                                       extra_stats=ctrl.stats)
    return e1prop.run_case_generic(case, oracles.c09, post=_post)


def coverage(agg, tier, roots_):
    need = ["triggered_runs", "trig_status_1", "trig_status_3", "trig_status_4", "ctrl_runs", "ctrl_status_1",
            "ctrl_status_3", "ctrl_status_4"]
    for req in ("cb", "target", "feas"):
        for kind in ("init", "tr", "soc", "geo"):
            need.append(f"cover_{req}_{kind}")
    cov, herr = e1prop.coverage_generic(agg, tier, roots_, RULE, need=need, dev_bound=1)
    cov["control_skeleton"] = {"executions": int(agg.stats.get("ctrl_runs", 0)),
                               "choice_points": int(agg.stats.get("ctrl_choice_points", 0)),
                               "deviation_bound": 1 if tier == "quick" else 2}
    cov["evaluations"] = int(agg.stats.get("runs", 0))
    cov["distinct_nontrivial"] = int(agg.stats.get("triggered_runs", 0))
    cov["rule"] += " distinct_nontrivial counts triggered runs (each has a distinct (root, index, request))."
    return cov, herr
