"""C13 - models are the least-Frobenius-norm interpolants the method prescribes."""
from fractions import Fraction as Fr

import numpy as np

from .. import common, e2, e2models
from . import c12

ID = "C13"
LEVEL = "model_checking"
EPS = e2models.EPS
KAPPA_CAP = 1e8
ASSUMPTIONS = [
    "reference ref_lfn: minimum-Frobenius-norm interpolant, then per update the minimum-norm quadratic interpolating "
    "the residuals on the new set, carried out exactly in fractions.Fraction (mc/e2models.py)",
    "comparison through value, gradient and Hessian at probe points {base, interpolation points, two lattice points} "
    "within a rounding budget accumulated along the history: each solve contributes 1e3*eps*kappa(a)*(|z_s| + "
    "|old model|/s^2) in the solver's scaled variables, mapped back through the scaling; histories that went through "
    "an eigenvalue truncation (ill_conditioned) are only judged for view-consistency and shift-invariance",
    "view consistency and shift invariance: 100*eps*(sum |coefficients| * magnitudes)",
    "same state space and de-duplication as C12",
]


def probes(st):
    ref = st["ref"]
    n = st["n"]
    pts = [[float(v) for v in ref.xb]]
    for y in ref.Y:
        pts.append([float(ref.xb[i] + y[i]) for i in range(n)])
    pts.append([0.5] * n)
    pts.append([-0.25 + 0.125 * i for i in range(n)])
    return pts


def views(models, which):
    if which == 0:
        return (models.fun, models.fun_grad, models.fun_hess, models.fun_hess_prod, models.fun_curv, models._fun)
    if which == 1:
        return (lambda x: models.cub(x)[0], lambda x: models.cub_grad(x)[0], lambda: models.cub_hess()[0],
                lambda v: models.cub_hess_prod(v)[0], lambda v: models.cub_curv(v)[0], models._cub[0])
    return (lambda x: models.ceq(x)[0], lambda x: models.ceq_grad(x)[0], lambda: models.ceq_hess()[0],
            lambda v: models.ceq_hess_prod(v)[0], lambda v: models.ceq_curv(v)[0], models._ceq[0])


def oracle(st, models, info):
    viol = []
    case = e2models.case_of(st)
    ref = st["ref"]
    n = st["n"]
    names = ["objective", "inequality", "equality"]

    def add(key, what):
        viol.append({"key": key, "what": what, "case": case})

    P = probes(st)
    it = models.interpolation
    for which in range(3):
        val, grad, hess, hprod, curv, quad = views(models, which)
        with np.errstate(all="ignore"):
            H = np.asarray(hess(), float)
        # --- view consistency (every state)
        mag = float(np.sum(np.abs(quad._i_hess) * np.sum(it.xpt ** 2, axis=0)) + np.sum(np.abs(quad._e_hess)))
        for v in ([1.0] + [0.0] * (n - 1), [0.5] * n, [(-1.0) ** i * (i + 1) for i in range(n)]):
            v = np.array(v)
            nv = float(np.linalg.norm(v))
            tol = 100 * EPS * (n + st["npt"]) * max(mag, 1e-300) * nv
            with np.errstate(all="ignore"):
                hp = np.asarray(hprod(v), float)
                cv = float(curv(v))
            if not np.all(np.abs(H @ v - hp) <= tol):
                add(f"view:hess-vs-hess_prod:{names[which]}", f"hess@v differs from hess_prod(v) by "
                                                              f"{float(np.max(np.abs(H @ v - hp))):.3g} after {info['op']}")
                return viol
            if not abs(float(v @ H @ v) - cv) <= tol * nv:
                add(f"view:hess-vs-curv:{names[which]}", f"v'Hv differs from curv(v) by {abs(float(v @ H @ v) - cv):.3g}")
                return viol
        for x in P[:3]:
            x = np.array(x)
            d = x - it.x_base
            with np.errstate(all="ignore"):
                g = np.asarray(grad(x), float)
                g2 = quad._grad + np.asarray(hprod(d), float)
            tol = 100 * EPS * (n + st["npt"]) * (float(np.max(np.abs(quad._grad))) + mag * float(np.linalg.norm(d)) + 1e-300)
            if not np.all(np.abs(g - g2) <= tol):
                add(f"view:grad:{names[which]}", "grad(x) differs from grad(base) + hess_prod(x - base)")
                return viol
        # --- shift invariance (float against float)
        pre = info.get("pre")
        if info["op"][0] == "shift" and pre is not None:
            pval, pgrad, phess, _, _, pquad = views(pre, which)
            pmag = float(np.sum(np.abs(pquad._i_hess) * np.sum(pre.interpolation.xpt ** 2, axis=0))
                         + np.sum(np.abs(pquad._e_hess)))
            m2 = max(mag, pmag)
            for x in P:
                x = np.array(x)
                r = float(np.linalg.norm(x - it.x_base)) + float(np.linalg.norm(x - pre.interpolation.x_base)) + 1.0
                base = abs(float(pquad._const)) + float(np.max(np.abs(pquad._grad))) * r + m2 * r * r
                tol = 1e3 * EPS * (n + st["npt"]) * max(base, 1e-300)
                with np.errstate(all="ignore"):
                    a, b = float(val(x)), float(pval(x))
                if not abs(a - b) <= tol:
                    add(f"shift-changes-function:{names[which]}",
                        f"shifting the base changed the {names[which]} model at {x.tolist()} from {b!r} to {a!r}")
                    return viol
            with np.errstate(all="ignore"):
                Hp = np.asarray(phess(), float)
            if not np.all(np.abs(H - Hp) <= 1e3 * EPS * (n + st["npt"]) * max(m2, 1e-300)):
                add(f"shift-changes-hessian:{names[which]}", "shifting the base changed the Hessian of a model")
                return viol
        # --- exact recursion (histories without eigenvalue truncation)
        if not st.get("trunc"):
            ex = ref.models[which]
            ec, eg, eh = ref.err[which]
            R = 4.0 * n ** 0.5 + 1.0
            mag = 100 * EPS * e2models.model_mag(ex, R)
            scale = max(1.0, float(max(abs(v) for v in ref.vals[which])))
            if ec + eg + eh + mag <= 1e-6 * scale:
                st["judged"] = True
            He = np.array([[float(v) for v in row] for row in ex[2]])
            if not np.all(np.abs(H - He) <= eh + mag):
                add(f"not-lfn:hessian:{names[which]}",
                    f"after {info['op']} the {names[which]} model's Hessian {H.tolist()} differs from the exact "
                    f"least-Frobenius-norm recursion {He.tolist()} (tolerance {eh + mag:.3g})")
                return viol
            for x in P:
                d = [Fr(float(a)) - b for a, b in zip(x, ref.xb)]
                ve = float(e2models.q_eval(ex, d))
                ge = np.array([float(v) for v in e2models.q_grad(ex, d)])
                with np.errstate(all="ignore"):
                    vr = float(val(np.array(x)))
                    gr = np.asarray(grad(np.array(x)), float)
                tv = ec + eg * R + eh * R * R + mag
                tg = eg + eh * R + mag
                if not abs(vr - ve) <= tv:
                    add(f"not-lfn:value:{names[which]}",
                        f"after {info['op']} the {names[which]} model takes {vr!r} at {x}, exact recursion {ve!r} "
                        f"(tolerance {tv:.3g})")
                    return viol
                if not np.all(np.abs(gr - ge) <= tg):
                    add(f"not-lfn:gradient:{names[which]}",
                        f"after {info['op']} the {names[which]} model's gradient at {x} is {gr.tolist()}, exact "
                        f"{ge.tolist()} (tolerance {tg:.3g})")
                    return viol
    if st.get("judged"):
        st["flags"] = list(st.get("flags", [])) + ["judged_against_exact"]
    return viol


oracle.needs_pre = True


def run_case(case):
    v = e2models.replay_history(case["n"], case["npt"], case["hist"], oracle)
    for x in v:
        x["case"] = case
    return {"viol": v, "stats": {}, "digests": [common.sha(case)]}


def execute(tier, seed, limit=0):
    agg = common.Agg()
    if tier == "quick":
        depth_full, depth_thin, configs, cap = {1: 3, 2: 2}, 0, c12.CONFIGS_Q, 240
    else:
        depth_full, depth_thin = {1: 5, 2: 2, 3: 1}, 1
        configs = c12.CONFIGS_Q + [(3, 4), (3, 7), (3, 10)]
        cap = 3000
    client = e2models.ModelsClient(configs, oracle, depth_full, depth_thin)
    init_viol = []
    for key, st in client.initial():
        init_viol.extend(st.get("init_viol", []))
    res = e2.bfs(client, max_depth=max(depth_full.values()) + depth_thin, conform_every=50, time_cap=cap,
                 conform_depth=1)
    herr = []
    for v in init_viol + res["viol"]:
        if v["key"].startswith("HARNESS:"):
            herr.append(v["what"])
        else:
            agg.viol.append(v)
    for st, err in res["errors"]:
        agg.errors.append((None, err))
    if res["flags"].get("judged_against_exact", 0) < 100:
        herr.append("fewer than 100 states were judged against the exact recursion with a tolerance <= 1e-6")
    if not res["flags"].get("shift"):
        herr.append("no shift operation explored")
    cov = {
        "states": int(res["states"]), "transitions": int(res["transitions"]),
        "traces_validated_against_impl": int(res["conformed"]),
        "samples": [{"n": st["n"], "nb_points": st["npt"], "history": st["hist"]} for st in res["samples"][:4]]
        or [{"n": 1, "nb_points": 2, "history": []}],
        "exhaustive": False, "depth_completed": res["depth_completed"], "states_per_depth": res["per_depth"],
        "cap_hit": res["capped"], "configurations": configs, "depth_full": depth_full, "depth_thin": depth_thin,
        "new_states_by_kind": res["flags"],
        "sharp_states": int(res["flags"].get("judged_against_exact", 0)),
        "explanation": "same breadth-first search as C12; every new state's three models are compared with the exact "
                       "rational recursion (value, gradient, Hessian at probe points), with each other's views and, "
                       "for shifts, with the model before the shift",
        "evaluations": int(res["transitions"]), "distinct_nontrivial": int(res["flags"].get("judged_against_exact", 0)),
    }
    return agg, cov, herr, []
