"""C13 - models are the least-Frobenius-norm interpolants the method prescribes."""
from fractions import Fraction as Fr

import numpy as np

from .. import common, e2, e2models
from . import c12

ID = "C13"
LEVEL = "model_checking"
EPS = e2models.EPS
KAPPA_CAP = 1e8
ASSUMPTIONS = [
    "reference ref_lfn: minimum-Frobenius-norm interpolant, then per update the minimum-norm quadratic interpolating "
    "the residuals on the new set, carried out exactly in fractions.Fraction (mc/e2models.py)",
    "comparison through value, gradient and Hessian at probe points {base, interpolation points, two lattice points} "
    "within a rounding budget accumulated along the history: each solve contributes 1e3*eps*kappa(a)*(|z_s| + "
    "|old model|/s^2) in the solver's scaled variables, mapped back through the scaling; histories that went through "
    "an eigenvalue truncation (ill_conditioned) are only judged for view-consistency and shift-invariance",
    "view consistency and shift invariance: 100*eps*(sum |coefficients| * magnitudes)",
    "same state space and de-duplication as C12",
]


def probes(st):
    ref = st["ref"]
    n = st["n"]
    pts = [[float(v) for v in ref.xb]]
    for y in ref.Y:
        pts.append([float(ref.xb[i] + y[i]) for i in range(n)])
    pts.append([0.5] * n)
    pts.append([-0.25 + 0.125 * i for i in range(n)])
    return pts


def views(models, which):
    if which == 0:
        return (models.fun, models.fun_grad, models.fun_hess, models.fun_hess_prod, models.fun_curv, models._fun)
    if which == 1:
        return (lambda x: models.cub(x)[0], lambda x: models.cub_grad(x)[0], lambda: models.cub_hess()[0],
                lambda v: models.cub_hess_prod(v)[0], lambda v: models.cub_curv(v)[0], models._cub[0])
    return (lambda x: models.ceq(x)[0], lambda x: models.ceq_grad(x)[0], lambda: models.ceq_hess()[0],
            lambda v: models.ceq_hess_prod(v)[0], lambda v: models.ceq_curv(v)[0], models._ceq[0])


def oracle(st, models, info):
    viol = []
    case = e2models.case_of(st)
    ref = st["ref"]
    n = st["n"]
    names = ["objective", "inequality", "equality"]

    def add(key, what):
        viol.append({"key": key, "what": what, "case": case})

    P = probes(st)
    it = models.interpolation
    for which in range(3):
        val, grad, hess, hprod, curv, quad = views(models, which)
        with np.errstate(all="ignore"):
            H = np.asarray(hess(), float)
        # --- view consistency (every state)
        mag = float(np.sum(np.abs(quad._i_hess) * np.sum(it.xpt ** 2, axis=0)) + np.sum(np.abs(quad._e_hess)))
        for v in ([1.0] + [0.0] * (n - 1), [0.5] * n, [(-1.0) ** i * (i + 1) for i in range(n)]):
            v = np.array(v)
            nv = float(np.linalg.norm(v))
            tol = 100 * EPS * (n + st["npt"]) * max(mag, 1e-300) * nv
            with np.errstate(all="ignore"):
                hp = np.asarray(hprod(v), float)
                cv = float(curv(v))
            if not np.all(np.abs(H @ v - hp) <= tol):
                add(f"view:hess-vs-hess_prod:{names[which]}", f"hess@v differs from hess_prod(v) by "
                                                              f"{float(np.max(np.abs(H @ v - hp))):.3g} after {info['op']}")
                return viol
            if not abs(float(v @ H @ v) - cv) <= tol * nv:
                add(f"view:hess-vs-curv:{names[which]}", f"v'Hv differs from curv(v) by {abs(float(v @ H @ v) - cv):.3g}")
                return viol
        for x in P[:3]:
            x = np.array(x)
            d = x - it.x_base
            with np.errstate(all="ignore"):
                g = np.asarray(grad(x), float)
                g2 = quad._grad + np.asarray(hprod(d), float)
            tol = 100 * EPS * (n + st["npt"]) * (float(np.max(np.abs(quad._grad))) + mag * float(np.linalg.norm(d)) + 1e-300)
            if not np.all(np.abs(g - g2) <= tol):
                add(f"view:grad:{names[which]}", "grad(x) differs from grad(base) + hess_prod(x - base)")
                return viol
        # --- shift invariance (float against float)
        pre = info.get("pre")
        if info["op"][0] == "shift" and pre is not None:
            pval, pgrad, phess, _, _, pquad = views(pre, which)
            pmag = float(np.sum(np.abs(pquad._i_hess) * np.sum(pre.interpolation.xpt ** 2, axis=0))
                         + np.sum(np.abs(pquad._e_hess)))
            m2 = max(mag, pmag)
            for x in P:
                x = np.array(x)
                r = float(np.linalg.norm(x - it.x_base)) + float(np.linalg.norm(x - pre.interpolation.x_base)) + 1.0
                base = abs(float(pquad._const)) + float(np.max(np.abs(pquad._grad))) * r + m2 * r * r
                tol = 1e3 * EPS * (n + st["npt"]) * max(base, 1e-300)
                with np.errstate(all="ignore"):
                    a, b = float(val(x)), float(pval(x))
                if not abs(a - b) <= tol:
                    add(f"shift-changes-function:{names[which]}",
                        f"shifting the base changed the {names[which]} model at {x.tolist()} from {b!r} to {a!r}")
                    return viol
            with np.errstate(all="ignore"):
                Hp = np.asarray(phess(), float)
            if not np.all(np.abs(H - Hp) <= 1e3 * EPS * (n + st["npt"]) * max(m2, 1e-300)):
                add(f"shift-changes-hessian:{names[which]}", "shifting the base changed the Hessian of a model")
                return viol
        # --- exact recursion (histories without eigenvalue truncation)
        if not st.get("trunc"):
            ex = ref.models[which]
            ec, eg, eh = ref.err[which]
            R = 4.0 * n ** 0.5 + 1.0
            mag = 100 * EPS * e2models.model_mag(ex, R)
            scale = max(1.0, float(max(abs(v) for v in ref.vals[which])))
            if ec + eg + eh + mag <= 1e-6 * scale:
                st["judged"] = True
            He = np.array([[float(v) for v in row] for row in ex[2]])
            if not np.all(np.abs(H - He) <= eh + mag):
                add(f"not-lfn:hessian:{names[which]}",
                    f"after {info['op']} the {names[which]} model's Hessian {H.tolist()} differs from the exact "
                    f"least-Frobenius-norm recursion {He.tolist()} (tolerance {eh + mag:.3g})")
                return viol
            for x in P:
                d = [Fr(float(a)) - b for a, b in zip(x, ref.xb)]
                ve = float(e2models.q_eval(ex, d))
                ge = np.array([float(v) for v in e2models.q_grad(ex, d)])
                with np.errstate(all="ignore"):
                    vr = float(val(np.array(x)))
                    gr = np.asarray(grad(np.array(x)), float)
                tv = ec + eg * R + eh * R * R + mag
                tg = eg + eh * R + mag
                if not abs(vr - ve) <= tv:
                    add(f"not-lfn:value:{names[which]}",
                        f"after {info['op']} the {names[which]} model takes {vr!r} at {x}, exact recursion {ve!r} "
                        f"(tolerance {tv:.3g})")
                    return viol
                if not np.all(np.abs(gr - ge) <= tg):
                    add(f"not-lfn:gradient:{names[which]}",
                        f"after {info['op']} the {names[which]} model's gradient at {x} is {gr.tolist()}, exact "
                        f"{ge.tolist()} (tolerance {tg:.3g})")
                    return viol
    if st.get("judged"):
        st["flags"] = list(st.get("flags", [])) + ["judged_against_exact"]
    return viol


oracle.needs_pre = True


# ---------------------------------------------------------------------------------------------- real runs
def _exact_model(quad, xpt):
    """(c, g, H) of a Quadratic given as floats, as exact rationals (H = explicit + sum implicit_k y_k y_k^T)."""
    const, grad, ih, eh = quad
    n, npt = xpt.shape
    Y = [[Fr(float(v)) for v in xpt[:, k]] for k in range(npt)]
    H = [[Fr(float(eh[i, j])) + sum(Fr(float(ih[k])) * Y[k][i] * Y[k][j] for k in range(npt)) for j in range(n)]
         for i in range(n)]
    return (Fr(const), [Fr(float(v)) for v in grad], H)


def _ref_of(snap):
    n, npt = snap["xpt"].shape
    r = e2models.Ref()
    r.n = n
    r.xb = [Fr(float(v)) for v in snap["x_base"]]
    r.Y = [[Fr(float(v)) for v in snap["xpt"][:, k]] for k in range(npt)]
    r.vals = [[Fr(float(v)) for v in col] for col in snap["vals"]]
    r.models = [_exact_model(q, snap["xpt"]) for q in snap["quads"]]
    r.err = [(0.0, 0.0, 0.0)] * len(snap["quads"])
    return r


def _repr_mag(quad, xpt, R):
    """Magnitude of the terms a stored Quadratic is made of (they may cancel: a barrier value that has left the
    set leaves implicit weights of order 1e42 behind): (|c| + R|g| + R^2 h, |g| + R h, h) with
    h = sum_k |w_k| |y_k|^2 + sum |explicit|."""
    const, grad, ih, eh = quad
    h = float(np.sum(np.abs(ih) * np.sum(xpt ** 2, axis=0)) + np.sum(np.abs(eh)))
    g = float(np.sum(np.abs(grad)))
    return (abs(const) + R * g + R * R * h, g + R * h, h)


def e1_roots(tier):
    """Real runs (cross-feature cases, n <= 2; 3 in thorough): the models after the initial sampling and after a
    reset must be the least-Frobenius-norm interpolants of the stored values; after each of the first updates the
    new model must be the old one (as stored, taken exactly) plus the least-norm interpolant of the residuals."""
    from .. import cover
    out = []
    for c in cover.roots_for(tier, monitors=["lfn"]):
        if tier == "quick" and c["tag"]["part"] != "cross-feature":
            continue
        if c["n"] > (2 if tier == "quick" else 3):
            continue
        c["explore"] = 0
        c["lfn_cap"] = 6 if c["n"] <= 2 else 3
        out.append(c)
    return out


def _finite(snap):
    return all(np.all(np.isfinite(a)) for a in [snap["xpt"], snap["x_base"]] + list(snap["vals"])) and \
        all(np.isfinite(q[0]) and np.all(np.isfinite(q[1])) and np.all(np.isfinite(q[2])) and np.all(np.isfinite(q[3]))
            for q in snap["quads"])


def e1_oracle(rec, table=None):
    viol = []
    for i, ent in enumerate(rec.notes.get("lfn", [])):
        post = ent["post"]
        if not _finite(post) or (ent["pre"] is not None and not _finite(ent["pre"])):
            continue
        n, npt = post["xpt"].shape
        if ent.get("ill") or e2models.truncates(post["xpt"]):
            continue
        kappa = e2models.kappa_of(post["xpt"])
        if not np.isfinite(kappa) or kappa > KAPPA_CAP:
            continue
        # distance from the base within which the models are evaluated in this run
        R = 4.0 * max(float(np.max(np.linalg.norm(post["xpt"], axis=0))), 1.0)
        if ent["pre"] is not None:
            R = max(R, 4.0 * float(np.max(np.linalg.norm(ent["pre"]["xpt"], axis=0))))
        if ent["op"] == "shift_x_base":
            R = max(R, 4.0 * float(np.linalg.norm(post["x_base"] - ent["pre"]["x_base"])))
            ref = _ref_of(ent["pre"])
            new = e2models.ref_shift(ref, [Fr(float(v)) for v in post["x_base"]])
            new.err = [(0.0, 0.0, 0.0)] * len(new.models)  # the representation terms below are the whole budget
        elif ent["op"] in ("init", "reset_models"):
            xb = [Fr(float(v)) for v in post["x_base"]]
            Y = [[Fr(float(v)) for v in post["xpt"][:, k]] for k in range(npt)]
            vals = [[Fr(float(v)) for v in col] for col in post["vals"]]
            new = e2models.ref_build(n, xb, Y, vals, kappa)
        else:
            ref = _ref_of(ent["pre"])
            k = ent["k"]
            y_abs = [a + Fr(float(b)) for a, b in zip(ref.xb, post["xpt"][:, k])]
            newvals = [Fr(float(col[k])) for col in post["vals"]]
            extra = [max(e2models.model_mag(m, R), _repr_mag(q, ent["pre"]["xpt"], R)[0])
                     for m, q in zip(ref.models, ent["pre"]["quads"])]
            new = e2models.ref_update(ref, k, y_abs, newvals, kappa, R=R, extra_mag=extra)
        if new is None:
            continue
        for which, quad in enumerate(post["quads"]):
            got = _exact_model(quad, post["xpt"])
            ex = new.models[which]
            ec, eg, eh = new.err[which]
            # rounding of the stored representation itself (before and after the operation)
            mc_, mg_, mh_ = _repr_mag(quad, post["xpt"], R)
            if ent["pre"] is not None:
                pc_, pg_, ph_ = _repr_mag(ent["pre"]["quads"][which], ent["pre"]["xpt"], R)
                mc_, mg_, mh_ = max(mc_, pc_), max(mg_, pg_), max(mh_, ph_)
            mc_, mg_, mh_ = 100 * EPS * mc_, 100 * EPS * mg_, 100 * EPS * mh_
            name = "objective" if which == 0 else f"constraint model {which}"
            dH = max(abs(float(got[2][a][b] - ex[2][a][b])) for a in range(n) for b in range(n))
            dg = max(abs(float(a - b)) for a, b in zip(got[1], ex[1]))
            dc = abs(float(got[0] - ex[0]))
            mag = mh_
            if not (dH <= eh + mh_ and dg <= eg + mg_ and dc <= ec + mc_):
                viol.append({"key": f"run:not-lfn:{ent['op']}",
                             "what": f"real run: after {ent['op']} #{i} the {name} differs from the exact "
                                     f"least-Frobenius-norm {'interpolant' if ent['pre'] is None else 'update'}: "
                                     f"|dH|={dH:.3g} (tol {eh + mh_:.3g}), |dg|={dg:.3g} (tol {eg + mg_:.3g}), "
                                     f"|dc|={dc:.3g} (tol {ec + mc_:.3g}), kappa {kappa:.3g}"})
                return viol
        rec.notes["lfn_judged"] = rec.notes.get("lfn_judged", 0) + 1
    return viol


def _e1_stats(rec, table, stats):
    stats["real_run_models_judged"] = stats.get("real_run_models_judged", 0) + rec.notes.get("lfn_judged", 0)
    for ent in rec.notes.get("lfn", []):
        stats["real_run_op_" + ent["op"]] = stats.get("real_run_op_" + ent["op"], 0) + 1


def run_case(case):
    if "hist" not in case:
        from .. import e1prop
        return e1prop.run_case_generic(case, e1_oracle, extra_stats=_e1_stats)
    v = e2models.replay_history(case["n"], case["npt"], case["hist"], oracle)
    for x in v:
        x["case"] = case
    return {"viol": v, "stats": {}, "digests": [common.sha(case)]}


def execute(tier, seed, limit=0):
    agg = common.Agg()
    if tier == "quick":
        depth_full, depth_thin, configs, cap = {1: 3, 2: 2}, 0, c12.CONFIGS_Q, 240
    else:
        depth_full, depth_thin = {1: 5, 2: 2, 3: 1}, 1
        configs = c12.CONFIGS_Q + [(3, 4), (3, 7), (3, 10)]
        cap = 3000
    client = e2models.ModelsClient(configs, oracle, depth_full, depth_thin)
    init_viol = []
    for key, st in client.initial():
        init_viol.extend(st.get("init_viol", []))
    res = e2.bfs(client, max_depth=max(depth_full.values()) + depth_thin, conform_every=50, time_cap=cap,
                 conform_depth=1)
    herr = []
    for v in init_viol + res["viol"]:
        if v["key"].startswith("HARNESS:"):
            herr.append(v["what"])
        else:
            agg.viol.append(v)
    for st, err in res["errors"]:
        agg.errors.append((None, err))
    if res["flags"].get("judged_against_exact", 0) < 100:
        herr.append("fewer than 100 states were judged against the exact recursion with a tolerance <= 1e-6")
    if not res["flags"].get("shift"):
        herr.append("no shift operation explored")
    # real runs
    from .. import alpha
    rts = alpha.permute(e1_roots(tier), seed)
    if limit:
        rts = rts[:limit]
    for out in common.run_roots(__import__("mc.props.c13", fromlist=["x"]), rts):
        agg.add(out)
    for k in ("real_run_models_judged", "real_run_op_init", "real_run_op_update_interpolation",
              "real_run_op_shift_x_base"):
        if not agg.stats.get(k):
            herr.append(f"non-vacuity counter {k} is zero")
    cov = {
        "states": int(res["states"]), "transitions": int(res["transitions"]),
        "traces_validated_against_impl": int(res["conformed"]),
        "samples": [{"n": st["n"], "nb_points": st["npt"], "history": st["hist"]} for st in res["samples"][:4]]
        or [{"n": 1, "nb_points": 2, "history": []}],
        "exhaustive": False, "depth_completed": res["depth_completed"], "states_per_depth": res["per_depth"],
        "cap_hit": res["capped"], "configurations": configs, "depth_full": depth_full, "depth_thin": depth_thin,
        "new_states_by_kind": res["flags"],
        "sharp_states": int(res["flags"].get("judged_against_exact", 0)),
        "explanation": "same breadth-first search as C12; every new state's three models are compared with the exact "
                       "rational recursion (value, gradient, Hessian at probe points), with each other's views and, "
                       "for shifts, with the model before the shift",
        "real_runs": {"runs": int(agg.stats.get("runs", 0)),
                      "operations_judged": int(agg.stats.get("real_run_models_judged", 0)),
                      "initial_models": int(agg.stats.get("real_run_op_init", 0)),
                      "updates": int(agg.stats.get("real_run_op_update_interpolation", 0)),
                      "shifts": int(agg.stats.get("real_run_op_shift_x_base", 0)),
                      "resets": int(agg.stats.get("real_run_op_reset_models", 0)),
                      "rule": "cross-feature cases (mc/cover.py), n <= 2 (3 in thorough): the first 6 (3) model "
                              "operations of each run; one exact step from the stored floating-point state"},
        "evaluations": int(res["transitions"] + agg.stats.get("runs", 0)),
        "distinct_nontrivial": int(res["flags"].get("judged_against_exact", 0)),
    }
    return agg, cov, herr, rts
