"""C07 - status, message and success describe what actually happened (E1 part;
the control-skeleton part on engine E3 is in c07 thorough/E3 when built)."""
from .. import alpha, ctrl, e1prop, explore, oracles

ID = "C07"
LEVEL = "exploration"
ASSUMPTIONS = [
    "the status table is parsed from minimize.__doc__ at run time (the reference is the documentation)",
    "the resolution at exit is read from the TrustRegion object (monitor), radius_final is recomputed by the harness",
    "numeric data restricted to the dyadic alphabet; n <= 2 quick, <= 3 thorough",
]
RULE = ("every way a run can end during the initial sampling (target / feasibility / callback / maxfev < nb_points / "
        "huge or NaN value making the system singular) at every sampling index and every admissible nb_points, plus "
        "every natural or forced ending of the main loop (radius, target, callback at every 3rd index, maxfev, maxiter, "
        "feasibility), all-fixed and inconsistent boxes; thorough adds one NaN/inf deviation at every evaluation; "
        "plus engine E3: every control path of the real main loop (including each LinAlgError site) against a scripted "
        "back end within 2 (thorough 3) deviations of three nominal scripts. "
        "Non-trivial = run ended by an event other than the default radius test or deviated; distinct = distinct "
        "bit-exact observation.")


def roots(tier, seed):
    out = []
    ns = [1, 2] if tier == "quick" else [1, 2, 3]
    cap = 60 if tier == "quick" else 300
    for n in ns:
        npts = sorted({n + 1, 2 * n + 1, (n + 1) * (n + 2) // 2})
        for npt in npts:
            for pats in [("free",) * n, ("wide",) * n]:
                for k in range(1, npt + 2):
                    # target reached at sampling index k (k = npt+1: first main-loop evaluation)
                    c = alpha.base_case(n, pats, "in", "quad", "none",
                                        options={"nb_points": npt, "target": -5.0, "maxfev": cap})
                    c["dev"] = [["obj", k, "target"]]
                    out.append(c)
                    c = alpha.base_case(n, pats, "in", "quad", "ball_le",
                                        options={"nb_points": npt, "target": -5.0, "maxfev": cap})
                    c["dev"] = [["obj", k, "target"]]
                    out.append(c)
                    # feasibility reached at sampling index k
                    c = alpha.base_case(n, pats, "in", "none", "contra_nl", options={"nb_points": npt, "maxfev": cap})
                    c["dev"] = [["con0", k, "feasible"]]
                    out.append(c)
                    # callback stop at index k
                    for sig in ["xk", "ir"]:
                        c = alpha.base_case(n, pats, "in", "quad", "ball_le", options={"nb_points": npt, "maxfev": cap},
                                            callback={"sig": sig, "behav": "stop", "k": k})
                        out.append(c)
                    # budget
                    for obj, cons in [("quad", "none"), ("quad", "ball_le"), ("none", "contra_nl")]:
                        c = alpha.base_case(n, pats, "in", obj, cons, options={"nb_points": npt, "maxfev": k})
                        out.append(c)
                    # singular data
                    for alt in ["huge", "nan", "pinf", "ninf"]:
                        c = alpha.base_case(n, pats, "in", "quad", "none", options={"nb_points": npt, "maxfev": cap})
                        c["dev"] = [["obj", k, alt]]
                        out.append(c)
        # feasibility tolerances at or above the barrier value: a NaN constraint value (replaced by the barrier inside
        # the solver) is not "feasible"
        for pats in [("free",) * n, ("wide",) * n]:
            for ftol in [alpha.INF, 2.0 ** 100, 1e40]:
                for obj, extra in [("none", {}), ("quad", {"target": 10.0})]:
                    for alt in ["nan", "huge", "pinf"]:
                        for k in (0, 1, 2 * n + 1, 2 * n + 2):
                            c = alpha.base_case(n, pats, "in", obj, "ball_le",
                                                options=dict(extra, feasibility_tol=ftol, maxfev=30))
                            c["dev"] = [["con0", kk, [alt, 0]] for kk in range(k + 1)]
                            c["tag"]["special"] = "ftol-at-barrier"
                            out.append(c)
        # undefined (NaN) bound entries mean "no bound on that side": the run is an ordinary one (status -1 is for
        # lb > ub only)
        for pats in [("wide",) * n, ("lo",) + ("wide",) * (n - 1)]:
            for which in ("lb0", "ub_last", "both", "all"):
                for obj, cons, opts in [("quad", "none", {"maxfev": 40}), ("quad", "ball_le", {"maxfev": 40}),
                                        ("quad", "lin_le", {"target": 3.0, "maxfev": 40}),
                                        ("none", "ball_le", {"maxfev": 40}), ("quad", "none", {"maxfev": 2})]:
                    for bform in ("Bounds", "array"):
                        c = alpha.base_case(n, pats, "in", obj, cons, bform=bform, options=dict(opts))
                        if which in ("lb0", "both"):
                            c["bounds"]["lb"][0] = alpha.NAN
                        if which in ("ub_last", "both"):
                            c["bounds"]["ub"][-1] = alpha.NAN
                        if which == "all":
                            c["bounds"]["lb"] = [alpha.NAN] * n
                            c["bounds"]["ub"] = [alpha.NAN] * n
                        c["tag"]["special"] = "nan-bounds"
                        out.append(c)
        # targets at or above the barrier value 2^100 that replaces NaN / infinite / huge objective values inside
        # the solver: the replaced value must not count as "target reached"
        for pats in [("free",) * n, ("wide",) * n]:
            for target in [alpha.INF, 2.0 ** 100, 1e40]:
                for cons in ["none", "ball_le"]:
                    for alt in ["huge", "nan", "pinf"]:
                        for k in (0, 1, 2 * n + 1, 2 * n + 2):
                            c = alpha.base_case(n, pats, "in", "quad", cons, options={"target": target, "maxfev": 30})
                            c["dev"] = [["obj", kk, alt] for kk in range(k + 1)]
                            c["tag"]["special"] = "target-at-barrier"
                            out.append(c)
                    c = alpha.base_case(n, pats, "in", "quad", cons, nan="everywhere",
                                        options={"target": target, "maxfev": 12})
                    c["tag"]["special"] = "target-at-barrier"
                    out.append(c)
        # main-loop endings
        for pats in [("free",) * n, ("wide",) * n, ("narrow",) + ("wide",) * (n - 1)]:
            for cons in ["none", "lin_le", "ball_le", "ball_eq"]:
                for ri, rf in [(1.0, 1e-6), (1.0, 1.0), (0.5, 0.25), (1.0, 1e-2), (1e-3, 0.0)]:
                    opts = {"radius_init": ri, "radius_final": rf}
                    if rf == 0.0:
                        opts["maxfev"] = cap
                    out.append(alpha.base_case(n, pats, "in", "quad", cons, options=opts))
                out.append(alpha.base_case(n, pats, "in", "quad", cons, options={"radius_final": 1e-3}))
                out.append(alpha.base_case(n, pats, "in", "quad", cons, options={"radius_init": 0.25}))
                for target in [0.375, 3.0, -1.0]:
                    out.append(alpha.base_case(n, pats, "in", "quad", cons, options={"target": target, "maxfev": cap}))
                for k in range(2 * n + 2, 2 * n + 20, 3):
                    out.append(alpha.base_case(n, pats, "in", "quad", cons, options={"maxfev": cap},
                                               callback={"sig": "xk", "behav": "stop", "k": k}))
                for maxiter in [1, 2, 5, 9]:
                    out.append(alpha.base_case(n, pats, "in", "quad", cons, options={"maxiter": maxiter}))
                for maxfev in [2 * n + 2, 2 * n + 5, 2 * n + 11]:
                    out.append(alpha.base_case(n, pats, "in", "quad", cons, options={"maxfev": maxfev}))
                if cons != "none":
                    out.append(alpha.base_case(n, pats, "out", "none", cons, options={"maxfev": cap}))
                    out.append(alpha.base_case(n, pats, "in", "quad_far", cons, options={"maxfev": cap}))
        # early exits
        for cons in ["none", "lin_le", "lin_contra" if False else "ball_le"]:
            for cbk in [None, {"sig": "xk", "behav": "stop", "k": 1}]:
                out.append(alpha.base_case(n, ("fixed",) * n, "out", "quad", cons, callback=cbk))
                out.append(alpha.base_case(n, ("fixulp",) * n, "in", "none", cons, callback=cbk))
                c = alpha.base_case(n, ("wide",) * n, "in", "quad", cons, callback=cbk)
                c["bounds"]["lb"][0] = 2.0
                c["bounds"]["ub"][0] = -2.0
                out.append(c)
            # infeasible fixed point: linear constraint violated by the fixed values
            out.append(alpha.base_case(n, ("fixed",) * n, "in", "quad", "contra_lin"))
            out.append(alpha.base_case(n, ("fixed",) * n, "in", "none", "contra_nl"))
    for c in out:
        c.setdefault("explore", 0)
        c["monitors"] = []
    if tier == "thorough":
        for c in out:
            if "dev" not in c and c["options"].get("maxfev", 10 ** 9) <= 60 and c["n"] <= 2:
                c["explore"] = 1
    out += ctrl.roots(tier)
    from .. import cover
    out += cover.roots_for(tier)
    return alpha.permute(out, seed)


def _stats(rec, table, stats):
    if rec.res is not None and bool(rec.res.success):
        stats["success_runs"] = stats.get("success_runs", 0) + 1
    if rec.res is not None and rec.pcalls and all(p["kind"] in ("init", "result") for p in rec.pcalls):
        stats["ended_in_sampling"] = stats.get("ended_in_sampling", 0) + 1


def _both(rec, table, stats):
    _stats(rec, table, stats)
    ctrl.stats(rec, table, stats)


def run_case(case):
    if case.get("stub"):
        return e1prop.run_case_generic(case, oracles.c07, menu=ctrl.menu, horizon=ctrl.horizon, extra_stats=_both)
    return e1prop.run_case_generic(case, oracles.c07, extra_stats=_stats)


def coverage(agg, tier, roots_):
    need = ["status_0", "status_1", "status_2", "status_3", "status_4", "status_5", "status_6", "status_-1",
            "ended_in_sampling", "success_runs", "evals_tr", "evals_geo"]
    cov, herr = e1prop.coverage_generic(agg, tier, roots_, RULE, need=need,
                                        dev_bound=1 if tier == "thorough" else 0)
    cov["deviation_bound_completed"] = {"real_runs": 1 if tier == "thorough" else 0,
                                        "control_skeleton": 3 if tier == "thorough" else 2}
    cov["statuses_seen"] = sorted(int(k[7:]) for k in agg.stats if k.startswith("status_"))
    for k in ["ctrl_runs", "ctrl_status_0", "ctrl_status_-2", "ctrl_status_5", "ctrl_status_6", "ctrl_resets"] + \
            [k for k in ctrl.SITE_KEYS]:
        if not agg.stats.get(k):
            herr.append(f"non-vacuity counter {k} is zero")
    ok, fails, inter = ctrl.conformance_suite(tier)
    cov["control_skeleton"] = {"executions": int(agg.stats.get("ctrl_runs", 0)),
                               "choice_points": int(agg.stats.get("ctrl_choice_points", 0)),
                               "deviation_bound": 2 if tier == "quick" else 3,
                               "scripted_answers_used": {k[5:]: int(agg.stats[k]) for k in ctrl.SITE_KEYS if agg.stats.get(k)},
                               "real_traces_replayed_through_skeleton": ok, "taped_interactions": inter,
                               "answer_classes_witnessed_in_real_runs": getattr(ctrl.conformance_suite, "witnessed", {})}
    herr += [f"conformance replay failed for {t}: {m}" for t, m in fails]
    return cov, herr
