"""C08 - minimize always returns: no crash, no escape of internal exceptions, NaN-safe.

Fault enumeration: every NaN / +-inf / huge answer at every evaluation index
(d <= 1 quick, d <= 2 thorough on a slice), region faults, degenerate problems,
all-fixed and inconsistent bounds x constraints x callbacks, malformed arguments.
"""
import io
import warnings
from contextlib import redirect_stdout

import numpy as np
from scipy.optimize import Bounds, LinearConstraint, NonlinearConstraint

from .. import alpha, common, e1, e1prop, oracles

ID = "C08"
LEVEL = "fault_enumeration"
ASSUMPTIONS = [
    "faults are injected only through the values returned by the user functions and the callback",
    "a run that does not return within 60 s (normal runs take 10-40 ms) is counted as a hang",
    "numeric data restricted to the dyadic alphabet; n <= 2 quick, <= 3 thorough",
]
RULE = ("fault enumeration: for every root problem of the alphabet, the fault-free run plus one run per "
        "(evaluation index, function, component, fault in {NaN,+inf,-inf,1e200}) (deviation bound 1; bound 2 on a "
        "slice in thorough); region faults (NaN on a half-space / outside / inside a ball); degenerate objectives; "
        "all-fixed and inconsistent boxes x {no, linear, nonlinear, dict constraints} x callback {none, passive, "
        "stops at once}; contradictory and redundant constraint sets; a list of malformed calls that must raise "
        "exactly ValueError/TypeError. Non-trivial = deviated run or run reaching the main loop; distinct = "
        "distinct bit-exact observation.")

MALFORMED = [
    "x0_2d", "bounds_wrong_len", "bounds_wrong_shape", "bounds_type", "callback_not_callable",
    "constraint_type", "dict_bad_type", "dict_no_fun", "lin_wrong_cols", "nlc_lb_2d",
]


# valid calls whose user functions return numbers in other Python / numpy types: they must return like any other
RETURN_TYPES = ["obj_int", "obj_f32", "obj_0d", "obj_1elem", "obj_list", "obj_bool",
                "con_int_eq", "con_intarr_eq", "con_int_ineq", "con_f32_two", "con_list_eq", "dict_eq_int",
                "dict_ineq_int", "con_bool_ineq"]


def run_return_type(case):
    name = case["return_type"]
    n = 2
    q = lambda x: float((x[0] - 1.0) ** 2 + (x[1] + 0.5) ** 2)  # noqa: E731
    conv = {"int": lambda v: int(round(v)), "f32": np.float32, "0d": np.array, "1elem": lambda v: np.array([v]),
            "list": lambda v: [v], "bool": lambda v: bool(v > 1.0)}
    kw = dict(fun=q, x0=[0.25, 0.5], options={"maxfev": 40})
    if name.startswith("obj_"):
        kw["fun"] = lambda x, c=conv[name[4:]]: c(q(x))
    else:
        g = lambda x: float(x[0] + 2.0 * x[1])  # noqa: E731
        if name == "con_int_eq":
            kw["constraints"] = NonlinearConstraint(lambda x: int(round(g(x))), 1, 1)
        elif name == "con_intarr_eq":
            kw["constraints"] = NonlinearConstraint(lambda x: np.array([int(round(g(x))), 2]), [1, 0], [1, 5])
        elif name == "con_int_ineq":
            kw["constraints"] = NonlinearConstraint(lambda x: int(round(g(x))), -np.inf, 1)
        elif name == "con_f32_two":
            kw["constraints"] = NonlinearConstraint(lambda x: np.float32(g(x)), -1.0, 1.0)
        elif name == "con_list_eq":
            kw["constraints"] = NonlinearConstraint(lambda x: [g(x), x[0]], [1.0, -np.inf], [1.0, 2.0])
        elif name == "dict_eq_int":
            kw["constraints"] = {"type": "eq", "fun": lambda x: int(round(g(x)))}
        elif name == "dict_ineq_int":
            kw["constraints"] = [{"type": "ineq", "fun": lambda x: int(round(g(x)))}, {"type": "eq", "fun": lambda x: 0}]
        elif name == "con_bool_ineq":
            kw["constraints"] = NonlinearConstraint(lambda x: g(x) > 1.0, -np.inf, 0.5)
        else:
            raise common.HarnessError(name)
    viol = []
    try:
        with warnings.catch_warnings():
            warnings.simplefilter("ignore")
            with np.errstate(all="ignore"), redirect_stdout(io.StringIO()), common.watchdog(60):
                res = e1.cobyqa.minimize(**kw)
        outcome = "returned" if hasattr(res, "x") and np.shape(res.x) == (n,) else "malformed-result"
    except common.Timeout:
        outcome = "Timeout"
    except BaseException as e:  # noqa
        outcome = type(e).__name__ + ": " + str(e)[:80]
    if outcome != "returned":
        viol.append({"key": f"return-type:{name}:{outcome.split(':')[0]}", "case": case,
                     "what": f"valid call whose user function returns '{name}' values ended with {outcome}"})
    return {"viol": viol, "stats": {"runs": 1, "return_type_calls": 1}, "digests": ["rt:" + name + outcome],
            "nontrivial": ["rt:" + name + outcome]}


def roots(tier, seed):
    from .. import cover
    out = []
    ns = [1, 2] if tier == "quick" else [1, 2, 3]
    # (A) single faults at every evaluation index
    for n in ns:
        patsets = [("free",) * n, ("wide",) * n]
        if n >= 2:
            patsets.append(("lo",) + ("wide",) * (n - 1))
            patsets.append(("fixed",) + ("wide",) * (n - 1))
        for pats in patsets:
            finite = all(np.isfinite(alpha.PATTERNS[p][0]) and np.isfinite(alpha.PATTERNS[p][1]) for p in pats
                         if p not in alpha.FIXED_PATS)
            for cons in ["none", "lin_le", "lin_eq", "ball_le", "ball_eq", "nl_vec", "lin+nl"]:
                for obj in ["quad", "abs", "none"]:
                    for scale in ([False, True] if finite else [False]):
                        if scale and (obj != "quad" or cons in ("lin_eq", "nl_vec")):
                            continue
                        if obj == "none" and cons in ("none",):
                            continue
                        opts = {"scale": scale}
                        if tier == "quick":
                            opts["maxfev"] = 16 * n + 8
                        else:
                            opts["maxfev"] = 60 * n
                        cbk = {"sig": "ir" if scale else "xk", "behav": "passive"} if cons in ("none", "ball_le", "lin+nl") \
                            else None
                        case = alpha.base_case(n, pats, "in", obj, cons, options=opts, callback=cbk)
                        case["explore"] = 1
                        if tier == "thorough" and n == 1 and cons in ("none", "ball_le") and not scale:
                            case["explore"] = 2
                            case["options"]["maxfev"] = 14
                        out.append(case)
                        # the same root without budget cap and without faults
                        free = alpha.base_case(n, pats, "in", obj, cons, options={"scale": scale})
                        free["explore"] = 0
                        out.append(free)
    # (B) region faults and (C) degenerate objectives / geometry
    for n in ns:
        for pats in [("free",) * n, ("wide",) * n]:
            for cons in ["none", "lin_le", "ball_le", "ball_eq"]:
                for nan in ["half", "outball", "inball", "everywhere"]:
                    for obj in ["quad", "lin"]:
                        case = alpha.base_case(n, pats, "in", obj, cons, nan=nan)
                        case["explore"] = 0
                        out.append(case)
                        # region fault in the constraint as well
                        if cons.startswith("ball"):
                            c2 = alpha.base_case(n, pats, "in", obj, cons)
                            c2["cons"][0]["funs"][0]["nan"] = alpha.nan_region(nan, n)
                            c2["explore"] = 0
                            out.append(c2)
                # complementary regions: every evaluation has a NaN in the objective or in the constraint
                if cons.startswith("ball"):
                    for t in (0.375, 0.875, -0.125):
                        for cbk in (None, {"sig": "xk", "behav": "passive"}):
                            c3 = alpha.base_case(n, pats, "in", "quad", cons, callback=cbk)
                            c3["obj"]["nan"] = {"type": "halfspace", "i": 0, "t": t, "side": 1}
                            c3["cons"][0]["funs"][0]["nan"] = {"type": "halfspace", "i": 0, "t": t + 2.0 ** -30, "side": -1}
                            c3["explore"] = 0
                            c3["tag"]["special"] = "complementary-nan"
                            out.append(c3)
                for obj in ["zero", "const", "lin", "cubic"]:
                    for npt in sorted({n + 1, 2 * n + 1, (n + 1) * (n + 2) // 2}):
                        case = alpha.base_case(n, pats, "in", obj, cons, options={"nb_points": npt})
                        case["explore"] = 0
                        out.append(case)
    # huge answers make the interpolation data collinear / singular
    for n in ns:
        for k in range(1, 2 * n + 3):
            case = alpha.base_case(n, ("free",) * n, "in", "quad", "none", options={"nb_points": n + 1})
            case["dev"] = [["obj", k, "huge"]]
            case["explore"] = 0
            out.append(case)
    # (D) all-fixed and inconsistent bounds x constraints x callbacks
    for n in ns:
        for kind in ["allfixed", "allfixulp", "inconsistent", "inconsistent_inf"]:
            for cons in ["none", "lin_le", "lin_eq", "ball_le", "ball_eq", "lin+nl", "dict"]:
                for cbk in [None, {"sig": "xk", "behav": "passive"}, {"sig": "xk", "behav": "stop", "k": 1},
                            {"sig": "ir", "behav": "stop", "k": 1}]:
                    for obj in ["quad", "none"]:
                        pats = ("fixed",) * n if kind == "allfixed" else (
                            ("fixulp",) * n if kind == "allfixulp" else ("wide",) * n)
                        cs = cons
                        if cons == "dict":
                            cs = [alpha.constraint("ball_ge", n, form="dict_ineq")]
                        case = alpha.base_case(n, pats, "out", obj, cs, callback=cbk)
                        if kind == "inconsistent":
                            case["bounds"]["lb"][0] = 1.0
                            case["bounds"]["ub"][0] = -1.0
                        if kind == "inconsistent_inf":
                            case["bounds"]["lb"][-1] = alpha.INF
                            case["bounds"]["ub"][-1] = alpha.INF
                        case["tag"]["special"] = kind
                        case["explore"] = 1 if tier == "thorough" else 0
                        out.append(case)
    # (E) contradictory / redundant constraints
    for n in ns:
        for cons in ["contra_lin", "contra_nl", "redund"]:
            for pats in [("free",) * n, ("wide",) * n]:
                for obj in ["quad", "none"]:
                    case = alpha.base_case(n, pats, "in", obj, cons)
                    case["explore"] = 0
                    out.append(case)
    # (G) radius_final = 0: the resolution and the radius decrease until they underflow (flat objectives
    #     make every step short, so this needs no evaluation budget)
    for n in ns:
        for obj in ["const", "zero", "lin", "abs"]:
            for cons in ["none", "lin_le", "lin_mixed", "ball_le", "ball_eq"]:
                for pats in [("free",) * n, ("wide",) * n, ("oddw", "oddn", "oddw")[:n]]:
                    for debug in (False, True):
                        for r0 in (2.0 ** -10, 2.0 ** -1060):
                            for scale in ((False, True) if pats[0] != "free" else (False,)):
                                case = alpha.base_case(n, pats, "out" if pats[0] != "free" else "in", obj, cons,
                                                       options={"radius_init": r0, "radius_final": 0.0, "debug": debug,
                                                                "maxfev": 40, "scale": scale, "maxiter": 4000})
                                case["tag"]["special"] = "radius-underflow"
                                case["explore"] = 0
                                out.append(case)
    # (H) single faults at every evaluation index with the solver's own assertions switched on (debug=True):
    #     barrier values make constraint gradients of order 1e30 next to bound gradients of order one
    for n in ([2] if tier == "quick" else [2, 3]):
        for pats in [("lo",) + ("wide",) * (n - 1), ("wide",) * n, ("free",) * n]:
            for cons in ["ball_le", "ball_eq", "ball_two", "nl_vec", "lin+nl", "lin+cubic"]:
                for where in ("in", "on"):
                    for xs in (1.0, 2.0 ** 20):
                        case = alpha.base_case(n, pats, where, "quad", cons,
                                               options={"debug": True, "maxfev": 12 * n})
                        cover.apply_scales(case, xs, 1.0, 1.0 if xs == 1.0 else 2.0 ** -30, 0.0)
                        case["explore"] = 1
                        case["tag"]["special2"] = "debug-faults"
                        out.append(case)
    #     ... and on a copy with tiny variables, a large objective and a huge radius (long steps along rows of
    #     order 1e5: the rounding of the rotated steps is amplified)
    for n in (2, 3):
        for cons in ["ball_two", "ball_eq"]:
            for obj in ["abs", "quad"]:
                for consts in ({}, {"decrease_resolution_factor": 0.5, "moderate_resolution_threshold": 1.5,
                                    "large_resolution_threshold": 2.0}):
                    case = alpha.base_case(n, ("free",) * n, "on", obj, cons, constants=consts,
                                           options={"debug": True, "maxfev": 60, "radius_init": 2.0 ** 20,
                                                    "radius_final": 2.0 ** 10})
                    cover.apply_scales(case, 2.0 ** -20, 2.0 ** 40, 1.0, 2.0 ** 30)
                    case["explore"] = 1
                    case["tag"]["special2"] = "debug-faults-long-steps"
                    out.append(case)
    # (F) malformed arguments
    for name in MALFORMED:
        out.append({"malformed": name, "n": 2})
    for name in RETURN_TYPES:
        out.append({"return_type": name, "n": 2})
    out += cover.roots_for(tier, explore_thorough=1)
    return alpha.permute(out, seed)


def _malformed(name):
    f = lambda x: float(np.sum(np.asarray(x) ** 2))  # noqa: E731
    kw = dict(fun=f, x0=[1.0, 2.0])
    if name == "x0_2d":
        kw["x0"] = [[1.0, 2.0], [3.0, 4.0]]
    elif name == "bounds_wrong_len":
        kw["bounds"] = Bounds([0.0], [1.0])
    elif name == "bounds_wrong_shape":
        kw["bounds"] = [[0.0, 1.0, 2.0], [0.0, 1.0, 2.0]]
    elif name == "bounds_type":
        kw["bounds"] = 3.5
    elif name == "callback_not_callable":
        kw["callback"] = 3
    elif name == "constraint_type":
        kw["constraints"] = ["x[0] <= 1"]
    elif name == "dict_bad_type":
        kw["constraints"] = {"type": "le", "fun": f}
    elif name == "dict_no_fun":
        kw["constraints"] = {"type": "eq"}
    elif name == "lin_wrong_cols":
        kw["constraints"] = LinearConstraint([[1.0, 1.0, 1.0]], 0.0, 1.0)
    elif name == "nlc_lb_2d":
        kw["constraints"] = NonlinearConstraint(f, [[0.0, 0.0], [0.0, 0.0]], [[1.0, 1.0], [1.0, 1.0]])
    else:
        raise common.HarnessError(name)
    return kw


def run_malformed(case):
    name = case["malformed"]
    kw = _malformed(name)
    viol = []
    try:
        with warnings.catch_warnings():
            warnings.simplefilter("ignore")
            with np.errstate(all="ignore"), redirect_stdout(io.StringIO()), common.watchdog(60):
                e1.cobyqa.minimize(**kw)
        outcome = "returned"
    except (ValueError, TypeError) as e:
        outcome = type(e).__name__
    except common.Timeout:
        outcome = "Timeout"
    except BaseException as e:  # noqa
        outcome = type(e).__name__
    if outcome not in ("ValueError", "TypeError"):
        viol.append({"key": f"malformed:{name}:{outcome}", "case": case,
                     "what": f"malformed call '{name}' ended with {outcome} instead of ValueError/TypeError"})
    return {"viol": viol, "stats": {"runs": 1, "malformed_calls": 1}, "digests": ["malformed:" + name + outcome],
            "nontrivial": ["malformed:" + name + outcome]}


def _stats(rec, table, stats):
    if rec.res is not None:
        f, m = float(rec.res.fun), float(rec.res.maxcv)
        if f != f or m != m:
            stats["nan_results"] = stats.get("nan_results", 0) + 1
    if rec.case.get("tag", {}).get("special") == "radius-underflow":
        if rec.res is not None and int(rec.res.status) == 0:
            stats["radius_underflow_runs"] = stats.get("radius_underflow_runs", 0) + 1
    elif rec.case.get("tag", {}).get("special"):
        stats["special_box_runs"] = stats.get("special_box_runs", 0) + 1
    for p in rec.pcalls:
        if p["ret"] is not None and abs(p["ret"][0]) >= 2.0 ** 100:
            stats["barrier_applied"] = stats.get("barrier_applied", 0) + 1
            break


def run_case(case):
    if "malformed" in case:
        return run_malformed(case)
    if "return_type" in case:
        return run_return_type(case)
    return e1prop.run_case_generic(case, oracles.c08, extra_stats=_stats)


def coverage(agg, tier, roots_):
    need = ["deviated_runs", "evals_tr", "evals_geo", "nan_results", "special_box_runs", "barrier_applied",
            "malformed_calls", "status_2", "status_-1", "radius_underflow_runs", "return_type_calls"]
    return e1prop.coverage_generic(agg, tier, roots_, RULE, need=need, dev_bound=2 if tier == "thorough" else 1)
