"""Engine E5 for the five subproblem solvers (C15, C16): bounded-exhaustive
input lattice, every point a replayable instance."""
import itertools
import math

import numpy as np

from . import common

cobyqa = common.bind_repo()
from cobyqa.subsolvers import (  # noqa: E402
    cauchy_geometry,
    constrained_tangential_byrd_omojokun,
    normal_byrd_omojokun,
    spider_geometry,
    tangential_byrd_omojokun,
)

INF = float("inf")
EPS = float(np.finfo(float).eps)
S = [2.0 ** -20, 1.0, 2.0 ** 20]

BPATS = ["free", "lo0", "up0", "fix0", "inside", "wide"]


def bpat(name, d):
    return {"free": (-INF, INF), "lo0": (0.0, INF), "up0": (-INF, 0.0), "fix0": (0.0, 0.0),
            "inside": (-0.25 * d, 0.5 * d), "wide": (-4.0 * d, 8.0 * d)}[name]


GCOMP = [0.0, 1.0, -1.0, 2.0 ** -30, -2.0 ** -30, 2.0 ** 30, -2.0 ** 30]


def hessian(kind, n):
    if kind == "zero":
        return np.zeros((n, n))
    if kind == "I":
        return np.eye(n)
    if kind == "-I":
        return -np.eye(n)
    if kind == "diag+-":
        return np.diag([(-1.0) ** i for i in range(n)])
    if kind == "rank1":
        v = np.array([1.0, 0.5, 0.25, 2.0, -1.0, 0.125][:n])
        return np.outer(v, v)
    if kind == "indef":
        return np.where(np.eye(n) > 0, 1.0, 2.0)
    if kind == "offneg":  # zero diagonal, negative couplings: moving along one variable pushes the others upwards
        return np.where(np.eye(n) > 0, 0.0, -1.0)
    raise ValueError(kind)


HKINDS = ["zero", "I", "-I", "diag+-", "rank1", "indef"]


def grads(n, thin, extra=()):
    if not thin:
        return list(itertools.product(list(GCOMP) + list(extra), repeat=n))
    base = list(itertools.product([0.0, 1.0, -1.0], repeat=n))
    extra = []
    for i in range(n):
        for v in GCOMP[3:]:
            g = [1.0 if j % 2 == 0 else -1.0 for j in range(n)]
            g[i] = v
            extra.append(tuple(g))
            g0 = [0.0] * n
            g0[i] = v
            extra.append(tuple(g0))
    return base + extra


def scalings(thin):
    if thin:
        return [(1.0, 1.0), (S[0], S[2]), (S[2], S[0])]
    return [(d, g) for d in S for g in S]


def ineq_sets(n, d):
    a = [1.0] * n
    na = [-1.0] * n
    return {
        "none": ([], []),
        "one_active": ([a], [0.0]),
        "one_small": ([a], [0.125 * d]),
        "one_large": ([a], [16.0 * d]),
        "parallel": ([a, a], [0.125 * d, 0.25 * d]),
        "opposite": ([a, na], [0.125 * d, 0.125 * d]),
        "opposite0": ([a, na], [0.0, 0.0]),
        # reached at exactly the step length at which a step along a coordinate direction reaches the trust-region
        # boundary (a tie between the radius and an inequality)
        "tie": ([a], [1.0 * d]),
    }


def eq_sets(n):
    r = [1.0, -1.0, 0.5, 2.0, -0.5, 1.0][:n] if n > 1 else [1.0]
    return {"none": [], "one": [r], "deficient": [r, [2.0 * x for x in r]]}


def spider_sets(n, d):
    coord = [[d if i == j else 0.0 for i in range(n)] for j in range(n)]
    col = [[d * (j + 1) * 0.5 for _ in range(n)] for j in range(3)]
    zero = [[0.0] * n] + coord[: max(1, n - 1)] + [[-0.5 * d] * n]
    return {"coord": coord, "collinear": col, "withzero": zero}


# --------------------------------------------------------------------------
# enumeration: a root = (fn, n, bounds assignment); the worker loops over the rest
# --------------------------------------------------------------------------
def roots(tier):
    out = []
    ns = [1, 2, 3] if tier == "quick" else [1, 2, 3, 4, 5, 6]
    for fn in ["tangential", "constrained", "normal", "cauchy", "spider"]:
        for n in ns:
            if n <= 3:
                assigns = list(itertools.product(BPATS, repeat=n))
            else:
                # pairwise-thinned: every pair of patterns occurs on every pair of adjacent variables
                assigns = [tuple(BPATS[(i + k * j) % 6] for j in range(n)) for k in range(6) for i in range(6)]
            for a in assigns:
                out.append({"fn": fn, "n": n, "bp": list(a), "tier": tier})
    return out


def instances(root):
    """Yield the instances (pure data) of one root: the dyadic lattice (all products and sums of the data are exact,
    so ties and cancellations are hit exactly), then a thinner non-dyadic copy of it (radius x 0.7, gradient x 0.3,
    Hessian x 0.33: the same cancellations now leave rounding noise)."""
    yield from _instances(root, False)
    yield from _instances(root, True)


def _instances(root, odd):
    fn, n, bp, tier = root["fn"], root["n"], root["bp"], root.get("tier", "quick")
    thin = n >= 3 or (odd and n >= 2)
    very_thin = n >= 4
    # the geometry solvers also get a mid-range component: with a non-zero constant term the outcome depends on the
    # ratio gradient*length/constant, which the powers of two alone jump over
    gl = grads(n, thin, extra=(6.0, -6.0) if fn in ("spider", "cauchy") and n <= 2 else ())
    if very_thin:
        gl = gl[:: max(1, len(gl) // 24)]
    for (d, gs) in scalings(thin or odd):
        if odd:
            d = 0.7 * d
        xl = [bpat(p, d)[0] for p in bp]
        xu = [bpat(p, d)[1] for p in bp]
        base = {"fn": fn, "n": n, "xl": xl, "xu": xu, "delta": d, "gscale": gs}
        if odd:
            base["gmul"] = 0.3
            base["hmul"] = 0.33
        if fn == "tangential":
            for g in gl:
                for hk in HKINDS:
                    for tcg in (True, False):
                        yield dict(base, g=[x * gs for x in g], hk=hk, tcg=tcg)
        elif fn == "constrained":
            hks = (["zero", "I", "indef"] if (n >= 2 and tier == "quick") else list(HKINDS)) + ["offneg"]
            gl2 = gl if n <= 2 else gl[::3]
            for g in gl2:
                for hk in hks:
                    for iname, (A, b) in ineq_sets(n, d).items():
                        for ename, E in eq_sets(n).items():
                            if n >= 2 and tier == "quick" and hk != "I" and iname in ("one_large", "opposite0") \
                                    and ename == "deficient":
                                continue
                            for tcg in ((True, False) if hk == "I" or n == 1 else (True,)):
                                yield dict(base, g=[x * gs for x in g], hk=hk, tcg=tcg, aub=A, bub=b, aeq=E,
                                           iname=iname, ename=ename)
                            # the solver's own (debug) postconditions, at the natural scale of the constraint rows
                            # and with rows of large magnitude (2^40: the twelve decades of the statement)
                            if hk == "I" and (A or E):
                                for cs in (1.0, 2.0 ** 40):
                                    yield dict(base, g=[x * gs for x in g], hk=hk, tcg=True,
                                               aub=[[x * cs for x in row] for row in A], bub=[x * cs for x in b],
                                               aeq=[[x * cs for x in row] for row in E], iname=iname, ename=ename,
                                               cscale=cs, debug=True)
            # gradients almost normal to the null space of the equalities (large multiple of the equality row plus
            # a small tangential part): the projected gradient is then known to few digits only
            if n >= 2:
                r = eq_sets(n)["one"][0]
                for big in (2.0 ** 20, 2.0 ** 30):
                    for g0 in itertools.product([0.0, 1.0, -1.0], repeat=n):
                        for hk in ("zero", "I", "-I"):
                            for iname in ("none", "one_small"):
                                A, b = ineq_sets(n, d)[iname]
                                yield dict(base, g=[(x + big * y) * gs for x, y in zip(g0, r)], hk=hk, tcg=True,
                                           aub=A, bub=b, aeq=[r], iname=iname, ename="one", near_normal=big)
        elif fn == "normal":
            a = [1.0] * n
            na = [-1.0] * n
            r = eq_sets(n)["one"][0]
            isets = {"none": ([], []), "viol": ([a], [-0.5 * d]), "active": ([a], [0.0]), "slack": ([a], [0.25 * d]),
                     "parallel_viol": ([a, a], [-0.5 * d, -0.25 * d]), "opposite_viol": ([a, na], [-0.5 * d, -0.5 * d]),
                     "far_viol": ([a], [-64.0 * d]), "mixed": ([a, na], [-0.25 * d, 2.0 * d])}
            esets = {"none": ([], []), "one0": ([r], [0.0]), "one": ([r], [0.5 * d]), "far": ([r], [64.0 * d]),
                     "deficient": ([r, [2.0 * x for x in r]], [0.5 * d, 1.0 * d]),
                     "inconsistent": ([r, [2.0 * x for x in r]], [0.5 * d, -1.0 * d])}
            for iname, (A, b) in isets.items():
                for ename, (E, be) in esets.items():
                    for asc in (1.0, gs):
                        for tcg in (True, False):
                            yield dict(base, aub=[[x * asc for x in row] for row in A], bub=[x * asc for x in b],
                                       aeq=[[x * asc for x in row] for row in E], beq=[x * asc for x in be],
                                       tcg=tcg, iname=iname, ename=ename)
        elif fn == "cauchy":
            for g in gl:
                for hk in HKINDS:
                    for const in (0.0, 1.0 * gs * d, -2.0 ** 30 * gs * d):
                        yield dict(base, g=[x * gs for x in g], hk=hk, const=const)
        elif fn == "spider":
            gl2 = gl if n <= 2 else gl[::2]
            for g in gl2:
                for hk in HKINDS:
                    for sname, P in spider_sets(n, d).items():
                        for const in (0.0, 1.0 * gs * d):
                            yield dict(base, g=[x * gs for x in g], hk=hk, const=const, xpt=P, sname=sname)


# --------------------------------------------------------------------------
# evaluation of one instance on the real solver
# --------------------------------------------------------------------------
def solve(inst):
    """Call the real function; returns (step or None, exception name or None, context dict)."""
    n = inst["n"]
    fn = inst["fn"]
    xl = np.array(inst["xl"], float)
    xu = np.array(inst["xu"], float)
    delta = float(inst["delta"])
    ctx = {"xl": np.minimum(xl, 0.0), "xu": np.maximum(xu, 0.0), "delta": delta}
    H = None
    if "hk" in inst:
        H = hessian(inst["hk"], n) * inst["gscale"] * inst.get("hmul", 1.0)
        ctx["H"] = H
    g = np.array(inst.get("g", [0.0] * n), float) * inst.get("gmul", 1.0)
    ctx["g"] = g
    kw = {}
    dbg = bool(inst.get("debug", False))
    if "tcg" in inst:
        kw["improve_tcg"] = bool(inst["tcg"])
    try:
        with np.errstate(all="ignore"):
            if fn == "tangential":
                s = tangential_byrd_omojokun(g.copy(), lambda v: H @ v, xl.copy(), xu.copy(), delta, False, **kw)
            elif fn == "constrained":
                aub = np.array(inst["aub"], float).reshape(-1, n)
                bub = np.array(inst["bub"], float)
                aeq = np.array(inst["aeq"], float).reshape(-1, n)
                ctx.update(aub=aub, bub=bub, aeq=aeq)
                s = constrained_tangential_byrd_omojokun(g.copy(), lambda v: H @ v, xl.copy(), xu.copy(),
                                                         aub.copy(), bub.copy(), aeq.copy(), delta, dbg, **kw)
            elif fn == "normal":
                aub = np.array(inst["aub"], float).reshape(-1, n)
                bub = np.array(inst["bub"], float)
                aeq = np.array(inst["aeq"], float).reshape(-1, n)
                beq = np.array(inst["beq"], float)
                ctx.update(aub=aub, bub=bub, aeq=aeq, beq=beq)
                s = normal_byrd_omojokun(aub.copy(), bub.copy(), aeq.copy(), beq.copy(), xl.copy(), xu.copy(),
                                         delta, False, **kw)
            elif fn == "cauchy":
                s = cauchy_geometry(float(inst["const"]), g.copy(), lambda v: float(v @ H @ v), xl.copy(), xu.copy(),
                                    delta, False)
            elif fn == "spider":
                xpt = np.array(inst["xpt"], float).T.reshape(n, -1)
                ctx["xpt"] = xpt
                s = spider_geometry(float(inst["const"]), g.copy(), lambda v: float(v @ H @ v), xpt.copy(),
                                    xl.copy(), xu.copy(), delta, False)
            else:
                raise common.HarnessError(fn)
        return np.asarray(s, float), None, ctx
    except common.Timeout:
        raise
    except Exception as e:  # noqa
        return None, type(e).__name__ + ": " + str(e)[:80], ctx


def q_val(ctx, s, const=0.0):
    return const + float(ctx["g"] @ s) + 0.5 * float(s @ ctx["H"] @ s)


def phi(ctx, s):
    r1 = np.maximum(ctx["aub"] @ s - ctx["bub"], 0.0) if ctx["aub"].size else np.zeros(0)
    r2 = ctx["aeq"] @ s - ctx["beq"] if ctx["aeq"].size else np.zeros(0)
    return 0.5 * (float(r1 @ r1) + float(r2 @ r2))


def ref_cauchy_decrease(ctx):
    """Decrease of the projected-gradient Cauchy step (first segment of the
    truncated CG): minimise q along -g on the coordinates that can move,
    truncated at the first bound and at the trust-region boundary."""
    g, H, xl, xu, delta = ctx["g"], ctx["H"], ctx["xl"], ctx["xu"], ctx["delta"]
    free = ((xl < 0.0) | (g < 0.0)) & ((xu > 0.0) | (g > 0.0))
    d = np.where(free, -g, 0.0)
    nd = float(np.linalg.norm(d))
    if nd == 0.0:
        return 0.0, 0.0
    t_max = delta / nd
    for i in range(d.size):
        if d[i] < 0 and xl[i] > -INF:
            t_max = min(t_max, xl[i] / d[i])
        if d[i] > 0 and xu[i] < INF:
            t_max = min(t_max, xu[i] / d[i])
    gd = float(g @ d)
    c = float(d @ H @ d)
    t = t_max
    if c > 0:
        t = min(t_max, -gd / c)
    t = max(t, 0.0)
    dec = -(t * gd + 0.5 * t * t * c)
    return max(dec, 0.0), nd


def ref_gcp_decrease(ctx):
    """Decrease at the generalized Cauchy point: the first local minimiser of q along the projected-gradient path
    p(t) = clip(-t*g, xl, xu), t >= 0, truncated at the trust-region boundary (Conn, Gould & Toint)."""
    g, H, xl, xu, delta = ctx["g"], ctx["H"], ctx["xl"], ctx["xu"], ctx["delta"]
    n = g.size
    d = -g.astype(float)
    tb = np.full(n, INF)
    for i in range(n):
        if d[i] > 0:
            tb[i] = xu[i] / d[i] if xu[i] < INF else INF
        elif d[i] < 0:
            tb[i] = xl[i] / d[i] if xl[i] > -INF else INF
        else:
            tb[i] = INF
    x = np.zeros(n)
    t = 0.0
    active = d != 0
    # coordinates that cannot move at all
    for i in range(n):
        if tb[i] <= 0:
            active[i] = False
    order = sorted(set(v for v in tb[active] if v < INF)) + [INF]
    qx = 0.0
    for tnext in order:
        dj = np.where(active, d, 0.0)
        if not np.any(dj != 0):
            break
        gx = g + H @ x
        fp = float(gx @ dj)
        fpp = float(dj @ H @ dj)
        if fp >= 0:
            break
        seg = tnext - t
        tau = seg
        if fpp > 0:
            tau = min(tau, -fp / fpp)
        # trust-region truncation: |x + tau*dj| <= delta
        a = float(dj @ dj)
        b = float(x @ dj)
        c = float(x @ x) - delta * delta
        disc = b * b - a * c
        if a > 0 and disc >= 0:
            tau_tr = (-b + np.sqrt(disc)) / a
            tau = min(tau, max(tau_tr, 0.0))
            hit_tr = tau_tr <= min(seg, (-fp / fpp) if fpp > 0 else INF)
        else:
            hit_tr = False
        if not np.isfinite(tau):
            tau = 0.0 if not np.isfinite(seg) else seg
        x = x + tau * dj
        x = np.clip(x, xl, xu)
        qx = float(g @ x + 0.5 * x @ H @ x)
        if hit_tr or tau < seg:
            break
        t = tnext
        for i in range(n):
            if active[i] and tb[i] <= tnext:
                active[i] = False
    return max(-qx, 0.0)


def tiny_along_path(ctx):
    """True if, somewhere along the active-set path, the reduced gradient falls below the solver's absolute
    non-descent threshold |d|^2 <= 10*eps*n*max(1,|grad|) (known finding D15)."""
    g, H, xl, xu = ctx["g"], ctx["H"], ctx["xl"], ctx["xu"]
    n = g.size
    free = ((xl < 0) | (g < 0)) & ((xu > 0) | (g > 0))
    x = np.zeros(n)
    for _ in range(n + 1):
        grad = g + H @ x
        fr = free & ~(((x <= xl) & (grad > 0)) | ((x >= xu) & (grad < 0)))
        nd2 = float(np.sum(grad[fr] ** 2))
        if nd2 <= 10 * EPS * n * max(1.0, float(np.linalg.norm(grad))):
            return True
        dd = np.where(fr, -grad, 0.0)
        tmin, imin = INF, None
        for i in range(n):
            if dd[i] > 0 and xu[i] < INF:
                t = (xu[i] - x[i]) / dd[i]
            elif dd[i] < 0 and xl[i] > -INF:
                t = (xl[i] - x[i]) / dd[i]
            else:
                continue
            if t < tmin:
                tmin, imin = t, i
        if imin is None:
            return False
        x = np.clip(x + tmin * dd, xl, xu)
        free = free.copy()
        free[imin] = False
    return False
