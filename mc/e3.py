"""Engine E3 (ctrl): the real ``minimize`` main loop and the real radius rules
explored against a scripted numerical back end.

``cobyqa.main.TrustRegion`` is rebound (inside the check process, for the
duration of one execution) to a subclass of the real ``TrustRegion`` that

* runs the REAL ``Models.__init__`` (initial sampling with its budget test
  and its target / feasibility / callback exits) - cheap for n = 1,
* keeps the REAL ``radius`` / ``resolution`` properties, ``update_radius``
  and ``enhance_resolution``,
* replaces every numerical method by a scripted answer drawn from a menu.

The real ``Problem``, ``_eval`` and ``_build_result`` are kept and are fed by
scripted one-variable user functions.  Every scripted answer (and every user
function answer) is a choice point of engine E1's deviation-bounded explorer.
"""
import inspect

import numpy as np

from . import common

cobyqa = common.bind_repo()
import cobyqa.framework as cframework  # noqa: E402
import cobyqa.main as cmain  # noqa: E402
import cobyqa.models as cmodels  # noqa: E402

RealTR = cframework.TrustRegion

# site -> ordered menu (choice 0 of the *policy* is looked up in POLICIES, the rest are deviations)
MENUS = {
    "step": ["long", "short", "vshort", "zero", "long_nbig"],
    "penalty": ["same", "changed"],
    "soc": ["no", "yes"],
    "socstep": ["nonzero", "zero"],
    "ratio": ["0.9", "0.5", "0.05", "-1"],
    "rm_new": ["ok", "linalg"],
    "update": ["ok", "ill", "linalg"],
    "altgrad": ["comparable", "small", "linalg"],
    "reset": ["ok", "linalg"],
    "rm_geo": ["near", "far", "linalg"],
    "geostep": ["ok", "linalg"],
}
POLICIES = {
    # always long successful steps: radius grows, ends by a budget
    "long": {"step": "long", "penalty": "same", "soc": "no", "socstep": "nonzero", "ratio": "0.9", "rm_new": "ok",
             "update": "ok", "altgrad": "comparable", "reset": "ok", "rm_geo": "near", "geostep": "ok"},
    # always short steps: walks the resolution down to radius_final, status 0
    "short": {"step": "short", "penalty": "same", "soc": "no", "socstep": "nonzero", "ratio": "0.05", "rm_new": "ok",
              "update": "ok", "altgrad": "comparable", "reset": "ok", "rm_geo": "near", "geostep": "ok"},
    # low-ratio steps with far points: alternates trust-region and geometry phases, model resets
    "lowratio": {"step": "long", "penalty": "same", "soc": "yes", "socstep": "nonzero", "ratio": "-1",
                 "rm_new": "ok", "update": "ok", "altgrad": "small", "reset": "ok", "rm_geo": "far", "geostep": "ok"},
}


class _Interp:
    def __init__(self, real):
        self.x_base = np.array(real.x_base, float)
        self.xpt = np.array(real.xpt, float)

    @property
    def n(self):
        return self.xpt.shape[0]

    @property
    def npt(self):
        return self.xpt.shape[1]

    def point(self, k):
        return self.x_base + self.xpt[:, k]


class ScriptedModels:
    def __init__(self, real, stub):
        self.interpolation = _Interp(real.interpolation)
        self.fun_val = np.array(real.fun_val, float)
        self.cub_val = np.array(real.cub_val, float)
        self.ceq_val = np.array(real.ceq_val, float)
        self._stub = stub

    n = property(lambda self: self.interpolation.n)
    npt = property(lambda self: self.interpolation.npt)
    m_nonlinear_ub = property(lambda self: self.cub_val.shape[1])
    m_nonlinear_eq = property(lambda self: self.ceq_val.shape[1])

    def update_interpolation(self, k_new, x_new, fun_val, cub_val, ceq_val):
        c = self._stub.choose("update")
        if c == "linalg":
            raise np.linalg.LinAlgError("scripted")
        self.interpolation.xpt[:, k_new] = x_new - self.interpolation.x_base
        self.fun_val[k_new] = fun_val
        self.cub_val[k_new, :] = cub_val
        self.ceq_val[k_new, :] = ceq_val
        self._stub.note_new_point(k_new, x_new)
        return c == "ill"

    def fun_grad(self, x):
        return np.ones(self.n)

    def fun_alt_grad(self, x):
        c = self._stub.choose("altgrad")
        if c == "linalg":
            raise np.linalg.LinAlgError("scripted")
        return np.ones(self.n) if c == "comparable" else np.full(self.n, 0.01)

    def reset_models(self):
        c = self._stub.choose("reset")
        self._stub.rec.notes["resets"] = self._stub.rec.notes.get("resets", 0) + 1
        if c == "linalg":
            raise np.linalg.LinAlgError("scripted")

    def shift_x_base(self, new_x_base, options):
        shift = new_x_base - self.interpolation.x_base
        self.interpolation.x_base = self.interpolation.x_base + shift
        self.interpolation.xpt = self.interpolation.xpt - shift[:, np.newaxis]


def make_stub(rec):
    """Build the TrustRegion subclass bound to one Recorder."""
    from . import e1
    policy = POLICIES[rec.case["stub"]["policy"]]

    class StubTR(RealTR):
        def __init__(self, pb, options, constants):
            self.rec = rec
            self._penalty = 0.0
            self._pb = pb
            self._constants = constants
            self._options = options
            rec.phase = "init"
            rec.pb = pb
            rec.framework = self
            try:
                real_models = cmodels.Models(pb, options, 0.0)  # REAL initial sampling
            finally:
                rec.phase = "main"
                rec.notes["options_after_init"] = dict(options)
            self._models = ScriptedModels(real_models, self)
            self._best_index = 0
            self._resolution = options["radius_init"]
            self._radius = self._resolution
            self._pending = None
            self._last_ratio = None
            self.monitor("init")

        # ---- scripted choice points ----------------------------------------------------
        def choose(self, site):
            k = rec.tick("S:" + site)
            alt = rec.dev.get(("S:" + site, k))
            if alt is not None:
                rec.used_dev.add(("S:" + site, k))
                val = alt
            else:
                val = policy[site]
            ent = {"fid": "S:" + site, "k": k, "x": np.zeros(0), "val": val, "alt": alt, "pcall": None,
                   "site": "stub", "xshape": (0,)}
            rec.points.append(ent)
            rec.notes.setdefault("sites", []).append((site, val))
            self.monitor(site)
            return val

        def monitor(self, where):
            rec.tr.append({"where": where, "radius": float(self._radius), "resolution": float(self._resolution),
                           "nfev": len(rec.pcalls)})

        def note_new_point(self, k_new, x_new):
            # the new point becomes the centre when the last ratio was positive (as the real rule would do)
            if self._last_ratio is not None and self._last_ratio > 0:
                self._best_index = int(k_new)

        # ---- state read by the main loop ---------------------------------------------------
        @property
        def x_best(self):
            return np.array(self._models.interpolation.point(self._best_index), float)

        def shift_x_base(self, options):
            self._models.shift_x_base(np.copy(self.x_best), options)
            rec.notes["shifts"] = rec.notes.get("shifts", 0) + 1

        def set_best_index(self):
            return None

        def set_multipliers(self, x):
            return None

        def decrease_penalty(self):
            return None

        def get_trust_region_step(self, options):
            c = self.choose("step")
            rec.step_kind = "tr"
            n = self._models.n
            e = np.zeros(n)
            e[0] = 1.0
            if c == "long":
                return 0.1 * self.radius * e, 0.9 * self.radius * e
            if c == "long_nbig":
                return 0.7 * self.radius * e, 0.3 * self.radius * e
            if c == "short":
                return np.zeros(n), 0.3 * self.resolution * e
            if c == "vshort":
                return np.zeros(n), 0.05 * self.resolution * e
            return np.zeros(n), np.zeros(n)

        def increase_penalty(self, step):
            c = self.choose("penalty")
            if c == "changed":
                self._penalty = max(2.0 * self._penalty, 1.0)
                return False
            return True

        def merit(self, x, fun_val=None, cub_val=None, ceq_val=None):
            # called in pairs (old, new) by the main loop before the SOC test
            if self._pending is None:
                self._pending = self.choose("soc")
                return 0.0
            c, self._pending = self._pending, None
            return 1.0 if c == "yes" else -1.0

        def get_second_order_correction_step(self, step, options):
            c = self.choose("socstep")
            rec.step_kind = "soc"
            n = self._models.n
            e = np.zeros(n)
            e[0] = 1.0
            return np.zeros(n) if c == "zero" else 0.25 * float(np.linalg.norm(step)) * e

        def get_reduction_ratio(self, step, fun_val, cub_val, ceq_val):
            self._last_ratio = float(self.choose("ratio"))
            return self._last_ratio

        def get_index_to_remove(self, x_new=None):
            npt = self._models.npt
            other = [k for k in range(npt) if k != self._best_index]
            if x_new is not None:
                c = self.choose("rm_new")
                if c == "linalg":
                    raise np.linalg.LinAlgError("scripted")
                return other[0], 0.5 * self.radius
            c = self.choose("rm_geo")
            if c == "linalg":
                raise np.linalg.LinAlgError("scripted")
            dist = 0.5 * self.radius if c == "near" else 10.0 * max(self.radius, 2.0 * self.resolution)
            return other[-1], dist

        def get_geometry_step(self, k_new, options):
            c = self.choose("geostep")
            if c == "linalg":
                raise np.linalg.LinAlgError("scripted")
            self._last_ratio = None
            rec.step_kind = "geo"
            n = self._models.n
            e = np.zeros(n)
            e[0] = -1.0
            return 0.5 * self.radius * e

    check_signatures(StubTR)
    return StubTR


_CHECKED = False


def check_signatures(stub_cls):
    """Binding to the code: every stubbed method must exist in the real class with the same signature, and every
    method/attribute the real main loop uses must be known to the stub."""
    global _CHECKED
    if _CHECKED:
        return
    _CHECKED = True
    for name, fn in vars(stub_cls).items():
        if name.startswith("__") or not callable(fn) or name in ("choose", "monitor", "note_new_point"):
            continue
        real = getattr(RealTR, name, None)
        if real is None:
            raise common.HarnessError(f"stubbed method {name} does not exist in TrustRegion")
        if inspect.signature(real) != inspect.signature(fn):
            raise common.HarnessError(f"signature of TrustRegion.{name} changed: {inspect.signature(real)} "
                                      f"vs stub {inspect.signature(fn)}")
    src = inspect.getsource(cmain.minimize)
    import re
    used = set(re.findall(r"framework\.(?:models\.)?([A-Za-z_]+)", src))
    known = set(vars(stub_cls)) | set(vars(ScriptedModels)) | {"radius", "resolution", "penalty", "models",
                                                                "fun_best", "cub_best", "ceq_best", "update_radius",
                                                                "enhance_resolution", "interpolation", "x_base"}
    missing = used - known
    if missing:
        raise common.HarnessError("the main loop uses TrustRegion members unknown to the stub: " + repr(sorted(missing)))


def install(rec):
    """Rebind cobyqa.main.TrustRegion for one execution; returns the restore function."""
    orig = cmain.TrustRegion
    cmain.TrustRegion = make_stub(rec)

    def restore():
        cmain.TrustRegion = orig

    return restore


# ------------------------------------------------------------------------------------------------
# Conformance: record a real run at the TrustRegion interface and replay it through the skeleton
# ------------------------------------------------------------------------------------------------
TAPE_METHODS = ["get_trust_region_step", "increase_penalty", "merit", "get_second_order_correction_step",
                "get_reduction_ratio", "get_index_to_remove", "get_geometry_step", "set_best_index",
                "shift_x_base", "set_multipliers", "decrease_penalty"]
TAPE_MODEL_METHODS = ["update_interpolation", "fun_grad", "fun_alt_grad", "reset_models"]
TAPE_PROPS = ["x_best", "fun_best", "cub_best", "ceq_best", "penalty"]


def _copy(v):
    if isinstance(v, np.ndarray):
        return np.array(v, copy=True)
    if isinstance(v, tuple):
        return tuple(_copy(x) for x in v)
    return v


class Recording:
    """Context manager: wraps the real TrustRegion/Models members so that every use made by ``minimize``'s own
    frame is written to a tape.  Only calls issued directly by the main loop are taped (nested internal uses, e.g.
    x_best read inside get_trust_region_step, are not)."""

    def __init__(self):
        self.tape = []
        self.traj = []
        self._saved = []
        self.depth = 0

    def _wrap_method(self, cls, name, site):
        orig = cls.__dict__[name]
        rec = self

        def wrapper(obj, *a, **kw):
            top = rec.depth == 0 and _called_from_main()
            if not top:
                return orig(obj, *a, **kw)
            rec.depth += 1
            try:
                out = orig(obj, *a, **kw)
            except np.linalg.LinAlgError:
                rec.tape.append((site, "raise", None))
                raise
            finally:
                rec.depth -= 1
            rec.tape.append((site, "ret", _copy(out)))
            if name == "get_trust_region_step":
                rec.traj.append((float(obj.radius), float(obj.resolution)))
            return out

        self._saved.append((cls, name, orig))
        setattr(cls, name, wrapper)

    def _wrap_prop(self, cls, name):
        orig = cls.__dict__[name]
        rec = self

        def getter(obj):
            val = orig.fget(obj)
            if rec.depth == 0 and _called_from_main():
                rec.tape.append((name, "ret", _copy(val)))
            return val

        self._saved.append((cls, name, orig))
        setattr(cls, name, property(getter, orig.fset))

    def __enter__(self):
        for m in TAPE_METHODS:
            self._wrap_method(RealTR, m, m)
        for m in TAPE_MODEL_METHODS:
            self._wrap_method(cmodels.Models, m, "models." + m)
        for p in TAPE_PROPS:
            self._wrap_prop(RealTR, p)
        orig = cmodels.Interpolation.__dict__["x_base"]
        rec = self

        def getter(obj):
            val = orig.fget(obj)
            if rec.depth == 0 and _called_from_main():
                rec.tape.append(("x_base", "ret", _copy(val)))
            return val

        self._saved.append((cmodels.Interpolation, "x_base", orig))
        cmodels.Interpolation.x_base = property(getter, orig.fset)
        return self

    def __exit__(self, *exc):
        for cls, name, orig in reversed(self._saved):
            setattr(cls, name, orig)
        return False


def _called_from_main():
    import sys
    f = sys._getframe(2)
    # skip wrapper frames of engine E1's spies (they live in mc/e1.py)
    while f is not None and (f.f_code.co_filename.endswith("/mc/e1.py") or f.f_code.co_filename.endswith("/mc/e3.py")):
        f = f.f_back
    return f is not None and f.f_code.co_name in ("minimize", "_eval") and f.f_code.co_filename.endswith("main.py")


class TapeMismatch(Exception):
    pass


def make_replay_stub(tape, traj_out):
    """The skeleton in 'recorded answers' mode."""
    pos = {"i": 0}

    def pop(site):
        if pos["i"] >= len(tape):
            raise TapeMismatch(f"tape exhausted at {site}")
        s, kind, val = tape[pos["i"]]
        if s != site:
            raise TapeMismatch(f"control path diverges at tape position {pos['i']}: skeleton asks {site}, "
                               f"real run did {s}")
        pos["i"] += 1
        if kind == "raise":
            raise np.linalg.LinAlgError("recorded")
        return _copy(val)

    class _RInterp:
        x_base = property(lambda self: pop("x_base"))

    class ReplayModels:
        interpolation = _RInterp()

        def update_interpolation(self, k_new, x_new, fun_val, cub_val, ceq_val):
            return pop("models.update_interpolation")

        def fun_grad(self, x):
            return pop("models.fun_grad")

        def fun_alt_grad(self, x):
            return pop("models.fun_alt_grad")

        def reset_models(self):
            return pop("models.reset_models")

    class ReplayTR(RealTR):
        def __init__(self, pb, options, constants):
            self._pb = pb
            self._constants = constants
            self._penalty = 0.0
            cmodels.Models(pb, options, 0.0)  # REAL initial sampling (its evaluations are part of the run)
            self._models = ReplayModels()
            self._resolution = options["radius_init"]
            self._radius = self._resolution

        x_best = property(lambda self: pop("x_best"))
        fun_best = property(lambda self: pop("fun_best"))
        cub_best = property(lambda self: pop("cub_best"))
        ceq_best = property(lambda self: pop("ceq_best"))
        penalty = property(lambda self: pop("penalty"))

        def get_trust_region_step(self, options):
            out = pop("get_trust_region_step")
            traj_out.append((float(self.radius), float(self.resolution)))
            return out

        def increase_penalty(self, step):
            return pop("increase_penalty")

        def merit(self, x, fun_val=None, cub_val=None, ceq_val=None):
            return pop("merit")

        def get_second_order_correction_step(self, step, options):
            return pop("get_second_order_correction_step")

        def get_reduction_ratio(self, step, fun_val, cub_val, ceq_val):
            return pop("get_reduction_ratio")

        def get_index_to_remove(self, x_new=None):
            return pop("get_index_to_remove")

        def get_geometry_step(self, k_new, options):
            return pop("get_geometry_step")

        def set_best_index(self):
            return pop("set_best_index")

        def shift_x_base(self, options):
            return pop("shift_x_base")

        def set_multipliers(self, x):
            return pop("set_multipliers")

        def decrease_penalty(self):
            return pop("decrease_penalty")

    return ReplayTR, pos


def conformance(kwargs_factory):
    """Run a real problem twice: (1) real back end, taped; (2) skeleton fed the tape.  Returns (ok, message,
    tape length).  ``kwargs_factory()`` must return fresh, equivalent minimize arguments."""
    with np.errstate(all="ignore"):
        with Recording() as r:
            res1 = cobyqa.minimize(**kwargs_factory())
    traj2 = []
    stub, pos = make_replay_stub(r.tape, traj2)
    orig = cmain.TrustRegion
    cmain.TrustRegion = stub
    try:
        with np.errstate(all="ignore"):
            res2 = cobyqa.minimize(**kwargs_factory())
    except TapeMismatch as e:
        return False, str(e), len(r.tape)
    finally:
        cmain.TrustRegion = orig
    if pos["i"] != len(r.tape):
        return False, f"skeleton consumed {pos['i']} of {len(r.tape)} taped interactions", len(r.tape)
    a = (int(res1.status), int(res1.nit), int(res1.nfev), np.asarray(res1.x).tobytes(), float(res1.fun))
    b = (int(res2.status), int(res2.nit), int(res2.nfev), np.asarray(res2.x).tobytes(), float(res2.fun))
    if a != b:
        return False, f"results differ: real {a[:3]} vs skeleton {b[:3]}", len(r.tape)
    if r.traj != traj2:
        return False, "radius/resolution trajectories differ", len(r.tape)
    conformance.last_classes = classify_tape(r.tape, r.traj)
    return True, "", len(r.tape)


def classify_tape(tape, traj):
    """Map the numeric answers of a real run to the answer classes of the scripted menus (which classes are
    realisable).  Returns a dict (site, class) -> count."""
    out = {}

    def add(site, cls):
        out[(site, cls)] = out.get((site, cls), 0) + 1

    it = iter(traj)
    rad = res = None
    pend_merit = None
    for site, kind, val in tape:
        if kind == "raise":
            add(site, "linalg")
            continue
        if site == "get_trust_region_step":
            rad, res = next(it, (rad, res))
            nstep, tstep = val
            sn = float(np.linalg.norm(nstep + tstep))
            if sn == 0:
                add("step", "zero")
            elif sn <= 0.1 * res:
                add("step", "vshort")
            elif sn <= 0.5 * res:
                add("step", "short")
            elif float(np.linalg.norm(nstep)) > 0.64 * rad:
                add("step", "long_nbig")
            else:
                add("step", "long")
        elif site == "increase_penalty":
            add("penalty", "same" if val else "changed")
        elif site == "merit":
            if pend_merit is None:
                pend_merit = float(val)
            else:
                add("merit_pair", "new>old" if float(val) > pend_merit else "new<=old")
                pend_merit = None
        elif site == "get_second_order_correction_step":
            add("socstep", "zero" if float(np.linalg.norm(val)) == 0 else "nonzero")
        elif site == "get_reduction_ratio":
            r = float(val)
            add("ratio", "<=0" if r <= 0 else ("<=0.1" if r <= 0.1 else ("<=0.7" if r <= 0.7 else ">0.7")))
        elif site == "get_index_to_remove":
            k, dist = val
            if rad is not None:
                add("rm", "far" if dist > max(rad, 2.0 * res) else "near")
        elif site == "models.update_interpolation":
            add("update", "ill" if val else "ok")
        elif site == "models.reset_models":
            add("reset", "ok")
        elif site == "models.fun_alt_grad":
            add("altgrad", "ok")
        elif site == "get_geometry_step":
            add("geostep", "ok")
        elif site == "shift_x_base":
            add("shift", "done")
    return out
